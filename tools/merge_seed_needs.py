#!/usr/bin/env python3
"""Puts the 'needs_to_manifest' text of selftest/seed_needs.json into seeded/<id>/meta.json."""
import json, os, glob
H = os.path.dirname(os.path.dirname(os.path.abspath(__file__)))
needs = json.load(open(os.path.join(H, "selftest", "seed_needs.json")))
for d in glob.glob(os.path.join(H, "seeded", "*")):
    p = os.path.join(d, "meta.json")
    if not os.path.exists(p): continue
    m = json.load(open(p))
    if m.get("id") in needs:
        m["needs_to_manifest"] = needs[m["id"]]
        json.dump(m, open(p, "w"), indent=1)
print("merged")
