// Guided search (multi-level splitting) for field elements whose inversion by the
// Bernstein-Yang division-step algorithm, as driven by the 32-bit backend's `inverse`
// (delta starts at 1, f = modulus, g = the canonical value), needs unusually many steps.
// The step count of the first k steps depends only on the low k bits of g, so candidates
// are refined from the low bits upwards: keep the T slowest, resample the bits above
// position p, raise p.
//
//   ./search <seed> <T> <C> <STEP> <nbits> <modulus limbs (u64, little endian)...>
//
// Output: one line "<steps> 0x<hex>" per kept candidate (slowest first).
#include <stdint.h>
#include <stdio.h>
#include <stdlib.h>
#include <string.h>
#define NL 7
typedef struct { uint64_t l[NL]; } big;
static big M;
static int NBITS;
static inline void add(big *r, const big *a, const big *b) { unsigned __int128 c = 0; for (int i = 0; i < NL; i++) { c += (unsigned __int128)a->l[i] + b->l[i]; r->l[i] = (uint64_t)c; c >>= 64; } }
static inline void sub(big *r, const big *a, const big *b) { unsigned __int128 c = 1; for (int i = 0; i < NL; i++) { c += (unsigned __int128)a->l[i] + (~b->l[i]); r->l[i] = (uint64_t)c; c >>= 64; } }
static inline void sar(big *r) { for (int i = 0; i < NL - 1; i++) r->l[i] = (r->l[i] >> 1) | (r->l[i + 1] << 63); r->l[NL - 1] = (uint64_t)(((int64_t)r->l[NL - 1]) >> 1); }
static inline int iszero(const big *a) { uint64_t o = 0; for (int i = 0; i < NL; i++) o |= a->l[i]; return o == 0; }
static int steps(const big *a) {
  int d = 1, n = 0; big f = M, g = *a, t;
  while (!iszero(&g)) {
    if (d > 0 && (g.l[0] & 1)) { sub(&t, &g, &f); f = g; g = t; sar(&g); d = 1 - d; }
    else { if (g.l[0] & 1) add(&g, &g, &f); sar(&g); d = 1 + d; }
    n++;
  }
  return n;
}
static uint64_t s[4];
static inline uint64_t rotl(uint64_t x, int k) { return (x << k) | (x >> (64 - k)); }
static uint64_t rnd(void) { uint64_t r = rotl(s[1] * 5, 7) * 9, t = s[1] << 17; s[2] ^= s[0]; s[3] ^= s[1]; s[1] ^= s[2]; s[0] ^= s[3]; s[2] ^= t; s[3] = rotl(s[3], 45); return r; }
static int lt(const big *a, const big *b) { for (int i = NL - 1; i >= 0; i--) { if (a->l[i] < b->l[i]) return 1; if (a->l[i] > b->l[i]) return 0; } return 0; }
typedef struct { int n; big a; } ent;
static int cmp(const void *x, const void *y) { const ent *a = x, *b = y; if (a->n != b->n) return b->n - a->n; return memcmp(&a->a, &b->a, sizeof(big)); }
static void randbig(big *r) { memset(r, 0, sizeof *r); for (int i = 0; i < (NBITS + 63) / 64; i++) r->l[i] = rnd(); int top = NBITS % 64; if (top) r->l[(NBITS - 1) / 64] &= ((1ULL << top) - 1); }
static void print(const big *a) { printf("0x"); for (int i = NL - 1; i >= 0; i--) printf("%016llx", (unsigned long long)a->l[i]); }
int main(int argc, char **argv) {
  if (argc < 7) return 2;
  uint64_t seed = strtoull(argv[1], 0, 10); int T = atoi(argv[2]), C = atoi(argv[3]), STEP = atoi(argv[4]); NBITS = atoi(argv[5]);
  memset(&M, 0, sizeof M); for (int i = 6; i < argc && i - 6 < NL; i++) M.l[i - 6] = strtoull(argv[i], 0, 0);
  s[0] = seed * 0x9E3779B97F4A7C15ULL + 1; s[1] = seed ^ 0xdeadbeefcafebabeULL; s[2] = 0x1234567ULL + seed; s[3] = 0x9999 + seed * 7; for (int i = 0; i < 20; i++) rnd();
  ent *pool = malloc(sizeof(ent) * (size_t)(T * (C + 1))); int np = 0;
  for (int i = 0; i < T * C; i++) { big a; do { randbig(&a); } while (!lt(&a, &M) || iszero(&a)); pool[np].a = a; pool[np].n = steps(&a); np++; }
  qsort(pool, np, sizeof(ent), cmp); np = T;
  for (int p = STEP; p < NBITS; p += STEP) {
    int base = np;
    for (int i = 0; i < base; i++) for (int c = 0; c < C; c++) {
      big r; randbig(&r); big b = pool[i].a;
      for (int k = 0; k < NL; k++) { int lo = k * 64; uint64_t m; if (p >= lo + 64) m = ~0ULL; else if (p <= lo) m = 0; else m = ((1ULL << (p - lo)) - 1); b.l[k] = (b.l[k] & m) | (r.l[k] & ~m); }
      if (!lt(&b, &M) || iszero(&b)) continue; pool[np].a = b; pool[np].n = steps(&b); np++;
    }
    qsort(pool, np, sizeof(ent), cmp);
    int w = 0; for (int i = 0; i < np && w < T; i++) if (w == 0 || memcmp(&pool[i].a, &pool[w - 1].a, sizeof(big)) != 0) pool[w++] = pool[i];
    np = w; fprintf(stderr, "%d %d %d\n", p, pool[0].n, pool[np - 1].n);
  }
  for (int i = 0; i < 12 && i < np; i++) { printf("%d ", pool[i].n); print(&pool[i].a); printf("\n"); }
  return 0;
}
