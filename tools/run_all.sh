#!/usr/bin/env bash
# tools/run_all.sh [tier]   run every registered check on /repo (rewrites evidence/*.json)
cd "$(dirname "$0")/.."
TIER="${1:-quick}"
rc=0
for id in $(python3 -c "import json;print(' '.join(c['property_id'] for c in json.load(open('MANIFEST.json'))['checks']))"); do
  s=$(date +%s)
  out=$(./check "$id" --tier "$TIER" 2>&1); r=$?
  echo "$id exit=$r $(( $(date +%s) - s ))s :: $(echo "$out" | grep -E "^C[0-9]+ tier=" | tail -1)"
  echo "$out" | grep -E "^(VIOLATION|FAILURE|harness error|check:)" | head -5
  [ $r = 0 ] || rc=1
done
exit $rc
