#!/usr/bin/env python3
"""Regenerates /verif/MANIFEST.json from the table below (run after adding a check)."""
import json, os, subprocess
HERE = os.path.dirname(os.path.dirname(os.path.abspath(__file__)))

CHECKS = {
 # id: (level, technique, level text, level note, design ref)
 "C01": ("exploration", "property-based testing (proptest): generated element recipes and near-miss byte strings vs. big-integer specification model; round-trip + differential oracle",
         "Generated-input search: every element recipe / byte string explored round-trips and agrees with the model's decodeSpec/encodeSpec; no absence claim beyond the cases explored.",
         "Trusts the BigUint port of ristretto.sage's encodeSpec/decodeSpec and the read-only coordinate hook.", "5/C01"),
}
PENDING = {}

def main():
    props = [json.loads(l) for l in open(os.path.join(HERE, "properties.jsonl"))]
    try:
        hook_commits = subprocess.check_output(["git", "-C", "/repo", "log", "--format=%H", "--grep=^verif hooks"], text=True).split()
    except Exception:
        hook_commits = []
    checks = []
    na = []
    for p in props:
        i = p["id"]
        if i in CHECKS:
            level, tech, text, note, ref = CHECKS[i]
            checks.append({
                "property_id": i,
                "quick_cmd": f"./check {i} --tier quick",
                "thorough_cmd": f"./check {i} --tier thorough",
                "evidence_file": f"evidence/{i}.json",
                "replay_cmd_template": f"./check {i} --replay {{path}}",
                "engine": "decaf-verif",
                "level_claimed": {"category": level, "text": text, "design_ref": f"DESIGN.md §{ref}"},
                "level_note": note,
                "technique": tech,
            })
        else:
            na.append({"property_id": i, "reason": PENDING.get(i, "check not built yet in this round (planned in DESIGN.md §5); not claimed until it exists and has been validated")})
    m = {
        "version": 1,
        "setup_cmd": "./setup.sh",
        "hooks": {
            "guard": "--cfg decaf377_verif",
            "enable": "RUSTFLAGS='--cfg decaf377_verif' (set by ./check for every build of /repo)",
            "baseline_off_cmd": "cd /repo && cargo test --workspace --no-fail-fast --offline",
            "source_commits": hook_commits,
            "add_only": True,
        },
        "engines": [{
            "name": "decaf-verif",
            "path": "harness/",
            "serves_properties": sorted(CHECKS),
            "kind_free_text": "Rust harness: proptest TestRunner (16 deterministic workers, VERIF_SEED), BigUint reference model, both library configurations linked into one process; libFuzzer targets under fuzz/ for the thorough tier",
        }],
        "checks": checks,
        "notes": "Exit codes: 0 held / 1 violation (VIOLATION line) / 2 inconclusive (build failure, watchdog). Known findings: known_findings.json.",
        "not_applicable": na,
    }
    json.dump(m, open(os.path.join(HERE, "MANIFEST.json"), "w"), indent=1)
    print("MANIFEST.json:", len(checks), "checks,", len(na), "not claimed")

main()
