#!/usr/bin/env python3
"""Regenerates /verif/MANIFEST.json from the table below (run after adding a check)."""
import json, os, subprocess
HERE = os.path.dirname(os.path.dirname(os.path.abspath(__file__)))

CHECKS = {
 # id: (level, technique, level text, level note, design ref)
 "C01": ("exploration", "property-based testing (proptest): generated element recipes and near-miss byte strings vs. big-integer specification model; round-trip + differential oracle",
         "Generated-input search: every element recipe / byte string explored round-trips and agrees with the model's decodeSpec/encodeSpec; no absence claim beyond the cases explored.",
         "Trusts the BigUint port of ristretto.sage's encodeSpec/decodeSpec and the read-only coordinate hook.", "5/C01"),
 "C02": ("exploration", "property-based testing (proptest): structured near-miss byte strings and slices of every length vs. the model's decodeSpec, through every decoding entry point of both configurations (conversions, stream deserialisers on whole, fragmented and interrupted readers, containers and the unchecked mode where implemented) (differential between entry points and against the model)",
         "Generated-input search over near-miss families (aliases s+kq, q-s, all single-bit flips, boundary values) and all slice lengths 0..=80; every entry point must give the model's verdict and element.",
         "Trusts the BigUint decodeSpec port; stream deserialisers may use any error kind.", "5/C02"),
 "C03": ("exploration", "property-based testing (proptest): groups of representations of one element (torsion shift, rescaling, affine round trip, (r-1)*(-P)) through every byte-producing path vs. the model's encodeSpec (metamorphic + differential oracle)",
         "Generated-input search: every explored representation encodes to the model's canonical bytes through 16 ark and 7 min paths; injectivity on independent pairs.",
         "Trusts the BigUint encodeSpec port and the read-only coordinate hook.", "5/C03"),
 "C04": ("exploration", "model-based property testing (proptest): random straight-line programs over all 69 ark / 16 min operator forms, compared after every instruction with an affine big-integer group-law model; algebraic-law cases through the library's equality",
         "Generated-input search over programs and operand pairs incl. identity, 2-torsion representative, P with -P, P with P; per-form execution counts in the evidence (a form never run fails the run as a harness error).",
         "Trusts the affine addition law in the model and the coordinate hook.", "5/C04"),
 "C05": ("exploration", "property-based testing (proptest): element recipes x structured scalars (boundary values, powers of two, all-ones limbs, limb vectors beyond the modulus) x all 20+5+6 multiplication forms vs. an independent big-integer double-and-add; module laws and r*P identity predicates",
         "Generated-input search; every explored (element, scalar, form) triple agrees with the reference k-fold sum as an element; per-form counts in the evidence.",
         "Trusts the model's projective double-and-add (unit-tested against the affine law).", "5/C05"),
 "C08": ("exploration", "property-based testing (proptest): recipe pairs constructed equal through different coset representatives / projective scalings, and independent pairs; metamorphic oracle (model equality <=> == <=> equal encodings, equal => equal hash stream, identity predicates agree)",
         "Generated-input search over pairs incl. (r-1)*Q vs -Q, P+Q-Q vs P, Q+(r-1)*Q vs identity for Element and AffinePoint; a recording hasher compares the whole byte stream fed to Hash.",
         "Trusts the model's coset equality; min has no Hash/Zero to check.", "5/C08"),
 "C06": ("exploration", "property-based testing (proptest): every public constructor/sampler/conversion/batch operation with generated arguments (byte strings, replayed RNG streams, recipe vectors); validity-predicate oracle evaluated by the big-integer model (on curve, r*P in {(0,+-1)}) plus encode/decode round trip",
         "Generated-input search over constructor arguments incl. adversarial RNG prefixes, y-coordinates of out-of-group points, batches containing the (0,-1) identity representative.",
         "Trusts the model's curve equation and scalar multiplication; RNG streams end in a ChaCha20 tail so rejection loops terminate.", "5/C06"),
 "C07": ("exploration", "property-based testing (proptest): structured field elements (0, +-small, powers of zeta, roots of unity of every order 2^k) vs. a line-by-line port of the unoptimised elligatorSpec; metamorphic (r0 -> -r0) and additive (two-input hash) relations",
         "Generated-input search in both configurations; both branches of the specification (inner ratio square / non-square) are counted in the evidence.",
         "Trusts the BigUint elligatorSpec port (cross-checked against refmodel/spec.py).", "5/C07"),
 "C10": ("exploration", "property-based testing (proptest): chains of field operations over every operator/method form (52 forms) on 3 fields x 2 backends with limb-pattern operands vs. big-integer arithmetic mod p, compared through canonical bytes after every step",
         "Generated-input search (1.2M chains quick); per-(backend, field, form) counts in the evidence, a form never run fails the run as a harness error.",
         "Trusts num-bigint arithmetic; zero divisors excluded (documented panic).", "5/C10"),
 "C17": ("exploration", "exhaustive enumeration of a finite table (the degenerate case of generated-input search): every public constant x configuration, each literal compared with a value recomputed from the modulus by the big-integer model or with its defining equation; reference arkworks crates as second opinion",
         "The domain (about 135 rows: ~60 constants x 2 configurations plus trait views and pairing-curve configs) is finite and enumerated completely on every run (exhaustive: true).",
         "Moduli derived from the BLS parameter; generator test complete only for Fq (full factorisation of q-1), necessary conditions + documented value for Fr/Fp.", "5/C17"),
 "C09": ("exploration", "property-based testing (proptest): (num, den) pairs whose ratio has a structurally chosen 2-primary component (every digit of every table window on e and -e, roots of unity of every order 2^k) vs. the four-case contract evaluated with Euler's criterion in BigUint; Field::sqrt/legendre on constructed squares and non-squares",
         "Generated-input search; the evidence carries a window x digit coverage matrix (all 1408 cells required) and the count of 2-power orders seen (all 48 required).",
         "Trusts BigUint modular exponentiation; covers the whole table space, not the whole input space.", "5/C09"),
 "C11": ("exploration", "property-based testing (proptest): byte strings of every length 0..=200 in both endiannesses, integers around the modulus offered to every checked parser, element pairs through every serialisation / conversion / ordering / hashing path, flag round trips; integer oracle in BigUint",
         "Generated-input search on 3 fields x 2 backends (1.5M cases quick); class histogram per (backend, field, kind) with required classes.",
         "Display(0) may be empty; FromStr compared only on canonical numerals; stream deserialisers may use any error kind.", "5/C11"),
 "C12": ("exploration", "differential property-based testing (proptest): one generated input (field operation chains, byte strings, near-miss encodings, Elligator inputs, group programs over all shared operator forms) fed to both feature configurations linked into one process; byte-identical observables required after every step",
         "Generated-input search; the two configurations are compiled from the same tree (default+r1cs and --no-default-features) and compared on verdicts, error variants, encodings, field bytes, identity tests and equality.",
         "Says which backend is wrong only together with C01-C11; internal coordinates are not compared.", "5/C12"),
 "C16": ("exploration", "differential property-based testing (proptest) against the reference engine ark_bls12_377::Bls12_377: structured scalars -> points, sums, cofactor operations, pairings, multi-pairings (byte-identical serialisations), bilinearity / non-degeneracy laws, and valid + corrupted serialised points exchanged between the engines",
         "Generated-input search (3k cases quick, ~3 ms each); corruptions include flag bits, bit flips, coordinate = p + small, truncation.",
         "Trusts ark-bls12-377 0.4 and ark-ec's generic BLS12 engine (shared by both sides).", "5/C16"),
 "C13": ("exploration", "model-based property testing (proptest): random gadget programs over a register file of circuit variables (all gadgets, allocation modes and operator forms) run in-circuit and natively step by step; stateful histories of forcing operations on lazy variables with constraint-count invariants",
         "Generated-input search; after every step value() must equal the native output and the system be satisfied, a natively failing step must leave it unsatisfied; histories check monotone constraint counts, zero-cost re-forcing and order-independent first-force cost against a fresh reference synthesis.",
         "Native = the library's own arkworks configuration (itself decided against the model by C01-C09); ark-r1cs-std and ark-relations trusted.", "5/C13"),
 "C15": ("exploration", "property-based testing (proptest): metamorphic shape test (same gadget program, two generated value assignments, setup vs proving mode -> identical constraint-matrix digest); public-input allocation invariant; differential test of the repository's own seven pinned circuits against the pinned Groth16 keys (prove with pinned pk, verify with pinned vk, every altered public input rejected)",
         "Generated-input search over programs, value pools and witnesses incl. identity and both coset representatives; the circuits are included verbatim from tests/groth16_gadgets.rs of the tree under test.",
         "ark-groth16 / ark-relations trusted; embedded constants are part of a circuit's definition and held fixed.", "5/C15"),
 "C14": ("fault_enumeration", "fault injection + property-based testing (proptest): prover hints substituted through a guarded hook (enumerated set containing every (flag, y) able to satisfy any case equation, applied at one site or all sites, plus random values) adversarial witness coordinates, non-canonical bit decompositions, and single-witness forgeries with re-derivation of the later witnesses on the extracted constraint matrices, over gadget instances, composed gadget programs and the repository's pinned circuits with false statements; oracle: satisfied => native accepts and outputs equal native",
         "Enumerates the 47-element substitution set on every gadget instance of the edge list (den = 0 sites included) and explores generated inputs / programs / substitutions beyond it; evidence has the gadget x substitution x {sat, unsat} matrix. One known finding (isqrt at den = 0 accepts (true, +-1)) is tolerated by exact signature.",
         "Soundness of ark-r1cs-std's own gadgets is assumed; a synthesis error or panic under dishonest hints counts as rejection.", "5/C14"),
}
PENDING = {}

def main():
    props = [json.loads(l) for l in open(os.path.join(HERE, "properties.jsonl"))]
    try:
        hook_commits = subprocess.check_output(["git", "-C", "/repo", "log", "--format=%H", "--grep=^verif hooks"], text=True).split()
    except Exception:
        hook_commits = []
    checks = []
    na = []
    for p in props:
        i = p["id"]
        if i in CHECKS:
            level, tech, text, note, ref = CHECKS[i]
            checks.append({
                "property_id": i,
                "quick_cmd": f"./check {i} --tier quick",
                "thorough_cmd": f"./check {i} --tier thorough",
                "evidence_file": f"evidence/{i}.json",
                "replay_cmd_template": f"./check {i} --replay {{path}}",
                "engine": "decaf-verif",
                "level_claimed": {"category": level, "text": text, "design_ref": f"DESIGN.md §{ref}"},
                "level_note": note,
                "technique": tech,
            })
        else:
            na.append({"property_id": i, "reason": PENDING.get(i, "check not built yet in this round (planned in DESIGN.md §5); not claimed until it exists and has been validated")})
    m = {
        "version": 1,
        "setup_cmd": "./setup.sh",
        "hooks": {
            "guard": "--cfg decaf377_verif",
            "enable": "RUSTFLAGS='--cfg decaf377_verif' (set by ./check for every build of /repo)",
            "baseline_off_cmd": "cd /repo && cargo test --workspace --no-fail-fast --offline",
            "source_commits": hook_commits,
            "add_only": True,
        },
        "engines": [{
            "name": "decaf-verif",
            "path": "harness/",
            "serves_properties": sorted(CHECKS),
            "kind_free_text": "Rust harness: proptest TestRunner (16 deterministic workers, VERIF_SEED), BigUint reference model, both library configurations linked into one process; libFuzzer targets under fuzz/ for the thorough tier",
        }],
        "checks": checks,
        "notes": "Exit codes: 0 held / 1 violation (VIOLATION line) / 2 inconclusive (build failure, watchdog). Known findings: known_findings.json.",
        "not_applicable": na,
    }
    json.dump(m, open(os.path.join(HERE, "MANIFEST.json"), "w"), indent=1)
    print("MANIFEST.json:", len(checks), "checks,", len(na), "not claimed")

main()
