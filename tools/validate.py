#!/usr/bin/env python3
"""Validate MANIFEST.json and every evidence file against the given schemas (python3-vt has jsonschema)."""
import json, glob, sys, jsonschema
ok = True
m = json.load(open('/verif/MANIFEST.json'))
jsonschema.validate(m, json.load(open('/root/.vp/MANIFEST.schema.json')))
es = json.load(open('/root/.vp/EVIDENCE.schema.json'))
for c in m['checks']:
    f = '/verif/' + c['evidence_file']
    try:
        e = json.load(open(f)); jsonschema.validate(e, es)
        assert e['level'] == c['level_claimed']['category'], (f, e['level'])
    except Exception as ex:
        ok = False; print("BAD", f, str(ex)[:200])
print("valid" if ok else "INVALID")
sys.exit(0 if ok else 1)
