#!/usr/bin/env bash
# One-off offline build of the harness (MANIFEST.setup_cmd). Everything comes from files on
# disk: the cargo registry cache and /repo. Also cross-checks the trusted base: the Rust
# reference model against the Python transcription of the Sage specification.
set -eu
cd "$(dirname "$0")"
export CARGO_NET_OFFLINE=true
./check --build-only
BIN=build/main/target/release/decaf-verif
[ "${VERIF_REPO:-/repo}" = "/repo" ] || BIN="$(ls -d build/alt-*/target/release/decaf-verif | head -1)"
"$BIN" spec-vectors | python3 refmodel/spec.py --check
echo "setup: harness built, reference model agrees with refmodel/spec.py"
