#!/usr/bin/env bash
# One-off offline build of the harness (MANIFEST.setup_cmd). Everything comes from
# files on disk: the cargo registry cache and /repo.
set -eu
cd "$(dirname "$0")"
export CARGO_NET_OFFLINE=true
./check --build-only
echo "setup: harness built"
