#!/usr/bin/env bash
# selftest/seed_eval.sh <ID> <variant> [check-ids...]
# Confirms an independently written breaking change (from /tmp/seed/<ID>/out/<variant>) in a
# scratch worktree of /repo's HEAD: (1) the pinned 101-test suite still passes with it,
# (2) its demonstration fails with it, (3) the demonstration passes without it; then runs
# the named checks (default: <ID>) of /verif against the changed tree. Writes
# /verif/seeded/<ID>-<variant>/{patch.diff,demo.rs,notes.md,meta.json}; removes all scratch.
set -u
ID="$1"; V="$2"; shift 2
CHECKS=("$@"); [ ${#CHECKS[@]} -gt 0 ] || CHECKS=("$ID")
SRC="${SEED_SRC:-/tmp/seed/$ID/out/$V}"
VERIF="$(cd "$(dirname "$0")/.." && pwd)"
OUT="$VERIF/seeded/$ID-$V"
SCR="/tmp/sv/$ID-$V"
export CARGO_NET_OFFLINE=true CARGO_TERM_COLOR=never
[ -f "$SRC/patch.diff" ] || { echo "no patch at $SRC"; exit 2; }
rm -rf "$SCR"; mkdir -p "$SCR" "$OUT"
git -C /repo worktree add --detach "$SCR/wt" HEAD >/dev/null 2>&1 || { echo "worktree failed"; exit 2; }
cleanup() { git -C /repo worktree remove --force "$SCR/wt" >/dev/null 2>&1; rm -rf "$SCR"; key="alt-$(printf '%s' "$SCR/wt" | cksum | cut -d' ' -f1)"; rm -rf "$VERIF/build/$key"; }
trap cleanup EXIT
cp "$SRC/patch.diff" "$OUT/patch.diff"; cp "$SRC/demo.rs" "$OUT/demo.rs" 2>/dev/null; cp "$SRC/notes.md" "$OUT/notes.md" 2>/dev/null
cd "$SCR/wt"
export CARGO_TARGET_DIR="$SCR/target"

run_demo() { # prints "<config>:<pass|fail|nocompile>" per config
  cp "$OUT/demo.rs" tests/seed_demo.rs
  for cfg in "default|" "min|--no-default-features" "r1cs|--features r1cs" "r1cs-hooks|--features r1cs"; do
    name="${cfg%%|*}"; flags="${cfg#*|}"
    rf=""; [ "$name" = "r1cs-hooks" ] && rf="--cfg decaf377_verif"
    log="$SCR/demo-$1-$name.log"
    RUSTFLAGS="$rf" timeout 1800 cargo test -j 8 --offline --release $flags --test seed_demo >"$log" 2>&1; rc=$?
    if grep -q "^test result: ok" "$log" && [ $rc = 0 ]; then
      n=$(grep -E "^test result: ok\. [0-9]+ passed" "$log" | sed -E 's/.*ok\. ([0-9]+) passed.*/\1/' | head -1)
      if [ "${n:-0}" = 0 ]; then echo "$name:empty"; else echo "$name:pass"; fi
    elif grep -q "^test result: FAILED" "$log"; then echo "$name:fail"
    elif grep -q "^error" "$log"; then echo "$name:nocompile"
    else echo "$name:fail"; fi
  done
  rm -f tests/seed_demo.rs
}

# (3) demo on the unchanged tree
CLEAN="$(run_demo clean | tr '\n' ' ')"
# apply
if ! git apply "$OUT/patch.diff" 2>"$SCR/apply.err"; then
  if ! git apply --3way "$OUT/patch.diff" 2>>"$SCR/apply.err"; then
    echo "{\"id\":\"$ID-$V\",\"status\":\"patch does not apply to the current tree\"}" > "$OUT/meta.json"; cat "$SCR/apply.err"; exit 3
  fi
fi
find src -name '*.rs' -exec touch {} +
# (1) pinned suite with the change
timeout 3000 cargo test -j 8 --workspace --no-fail-fast --offline >"$SCR/suite.log" 2>&1
PASSED=$(grep -E "^test result:" "$SCR/suite.log" | sed -E 's/.* ([0-9]+) passed.*/\1/' | paste -sd+ | bc)
FAILED=$(grep -E "^test result:" "$SCR/suite.log" | sed -E 's/.* ([0-9]+) failed.*/\1/' | paste -sd+ | bc)
# (2) demo with the change
CHANGED="$(run_demo changed | tr '\n' ' ')"
# checks against the changed tree
RES=""
for c in "${CHECKS[@]}"; do
  log="$SCR/check-$c.log"
  (cd "$VERIF" && unset CARGO_TARGET_DIR && VERIF_REPO="$SCR/wt" ./check "$c" --tier quick) >"$log" 2>&1; rc=$?
  sig=$(grep -m1 "^FAILURE" "$log" | sed -E 's/^FAILURE property=[A-Z0-9]+ signature=(.*) :: .*/\1/' | cut -c1-120)
  RES="$RES{\"check\":\"$c\",\"exit\":$rc,\"signature\":\"$(printf '%s' "$sig" | sed 's/"/\\"/g')\"},"
  cp "$log" "$OUT/check-$c.log"
done
python3 - "$ID" "$V" "${PASSED:-0}" "${FAILED:-0}" "$CLEAN" "$CHANGED" "[${RES%,}]" "$(git -C /repo rev-parse --short HEAD)" > "$OUT/meta.json" <<'PY'
import json,sys
ID,V,p,f,clean,changed,res,head=sys.argv[1:9]
def parse(s): return dict(x.split(':') for x in s.split())
clean,changed=parse(clean),parse(changed)
meta={"id":f"{ID}-{V}","breaks_property":ID,"repo_head":head,
 "pinned_suite_with_change":{"passed":int(p),"failed":int(f)},
 "demo_on_unchanged_tree":clean,"demo_with_change":changed,
 "confirmed": int(p)==101 and int(f)==0 and any(v=="fail" for v in changed.values()) and not any(v=="fail" for v in clean.values()) and any(v=="pass" for v in clean.values()),
 "checks":json.loads(res),
 "needs_to_manifest":"see notes.md (written by the independent author of the change)",
 "what_was_run":"selftest/seed_eval.sh: scratch worktree of /repo HEAD; demo under default / --no-default-features / --features r1cs / r1cs + --cfg decaf377_verif on the unchanged and on the changed tree; cargo test --workspace with the change; ./check <id> --tier quick with VERIF_REPO pointing at the changed tree"}
meta["detected"]=any(c["exit"]==1 for c in meta["checks"])
print(json.dumps(meta,indent=1))
PY
cat "$OUT/meta.json" | python3 -c "import json,sys; m=json.load(sys.stdin); print(m['id'],'confirmed' if m['confirmed'] else 'NOT-CONFIRMED','DETECTED' if m['detected'] else 'MISSED',[ (c['check'],c['exit'],c['signature']) for c in m['checks']])"
