#!/usr/bin/env bash
# selftest/seed_batch.sh "<ID> <variant> [checks...]" ...   (two lanes in parallel)
cd "$(dirname "$0")/.."
printf '%s\n' "$@" | xargs -P 2 -I{} bash -c 'selftest/seed_eval.sh {} 2>&1 | tail -1'
