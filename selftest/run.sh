#!/usr/bin/env bash
# selftest/run.sh <mutation.patch> [check-ids...]
# Sensitivity test: applies one catalogue mutation to a scratch worktree of /repo's HEAD and
# runs the quick check of its property (default: the C<nn> prefix of the patch name) against
# it. Expected: exit 1 with a VIOLATION line whose replay reproduces. Prints one result line;
# appends it to selftest/RESULTS.tsv. All scratch state is removed afterwards.
set -u
PATCH="$(readlink -f "$1")"; shift
NAME="$(basename "$PATCH" .patch)"
CHECKS=("$@"); [ ${#CHECKS[@]} -gt 0 ] || CHECKS=("${NAME:0:3}")
VERIF="$(cd "$(dirname "$0")/.." && pwd)"
SCR="/tmp/mut/$NAME"
export CARGO_NET_OFFLINE=true CARGO_TERM_COLOR=never
rm -rf "$SCR"; mkdir -p "$SCR"
git -C /repo worktree add --detach "$SCR/wt" HEAD >/dev/null 2>&1 || { echo "$NAME worktree-failed"; exit 2; }
key="alt-$(printf '%s' "$SCR/wt" | cksum | cut -d' ' -f1)"
cleanup() { git -C /repo worktree remove --force "$SCR/wt" >/dev/null 2>&1; rm -rf "$SCR" "$VERIF/build/$key"; }
trap cleanup EXIT
cd "$SCR/wt"
if ! git apply "$PATCH" 2>"$SCR/apply.err" && ! git apply --3way "$PATCH" 2>>"$SCR/apply.err"; then
  printf '%s\t%s\t%s\t%s\n' "$NAME" "-" "patch-does-not-apply" "" | tee -a "$VERIF/selftest/RESULTS.tsv"; exit 3
fi
find src -name '*.rs' -exec touch {} +
for c in "${CHECKS[@]}"; do
  s=$(date +%s)
  (cd "$VERIF" && VERIF_REPO="$SCR/wt" ./check "$c" --tier quick) >"$SCR/check.log" 2>&1; rc=$?
  sig=$(grep -m1 "^FAILURE" "$SCR/check.log" | sed -E 's/^FAILURE property=[A-Z0-9]+ signature=(.*) :: .*/\1/' | cut -c1-120)
  replay_ok="-"
  rp=$(grep -m1 "^VIOLATION" "$SCR/check.log" | sed -E 's/.*replay=//')
  if [ "$rc" = 1 ] && [ -n "$rp" ] && [ -f "$rp" ]; then
    (cd "$VERIF" && VERIF_REPO="$SCR/wt" ./check "$c" --replay "$rp") >"$SCR/replay.log" 2>&1; [ $? = 1 ] && replay_ok="replay-reproduces" || replay_ok="REPLAY-DOES-NOT-REPRODUCE"
  fi
  verdict="MISSED"; [ "$rc" = 1 ] && verdict="killed"; [ "$rc" = 2 ] && verdict="inconclusive($(grep -m1 -E 'check:|harness error' "$SCR/check.log" | cut -c1-80))"
  printf '%s\t%s\t%s\t%s\t%s\t%ss\n' "$NAME" "$c" "$verdict" "$sig" "$replay_ok" "$(( $(date +%s) - s ))" | tee -a "$VERIF/selftest/RESULTS.tsv"
done
