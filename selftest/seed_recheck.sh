#!/usr/bin/env bash
# selftest/seed_recheck.sh <seeded-dir-name> [check-ids...]
# Re-runs the checks recorded in seeded/<name>/meta.json (or the ones given) against a scratch
# worktree of /repo's HEAD with seeded/<name>/patch.diff applied -- i.e. with the *current*
# harness -- updates meta.json ("checks", "rechecked_with") and keeps the shrunk replay file
# of every detecting check as seeded/<name>/replay-<check>.json.
set -u
NAME="$1"; shift
VERIF="$(cd "$(dirname "$0")/.." && pwd)"
DIR="$VERIF/seeded/$NAME"
[ -f "$DIR/patch.diff" ] || { echo "$NAME: no patch"; exit 2; }
if [ $# -gt 0 ]; then CHECKS=("$@"); else CHECKS=($(python3 -c "import json;print(' '.join(c['check'] for c in json.load(open('$DIR/meta.json'))['checks']))")); fi
SCR="/tmp/sr/$NAME"
export CARGO_NET_OFFLINE=true CARGO_TERM_COLOR=never
rm -rf "$SCR"; mkdir -p "$SCR"
git -C /repo worktree add --detach "$SCR/wt" HEAD >/dev/null 2>&1 || { echo "$NAME worktree-failed"; exit 2; }
key="alt-$(printf '%s' "$SCR/wt" | cksum | cut -d' ' -f1)"
cleanup() { git -C /repo worktree remove --force "$SCR/wt" >/dev/null 2>&1; rm -rf "$SCR" "$VERIF/build/$key"; }
trap cleanup EXIT
cd "$SCR/wt"
git apply "$DIR/patch.diff" 2>/dev/null || git apply --3way "$DIR/patch.diff" 2>/dev/null || { echo "$NAME patch-does-not-apply"; exit 3; }
find src -name '*.rs' -exec touch {} +
RES=""
for c in "${CHECKS[@]}"; do
  log="$SCR/check-$c.log"
  (cd "$VERIF" && VERIF_REPO="$SCR/wt" ./check "$c" --tier quick) >"$log" 2>&1; rc=$?
  sig=$(grep -m1 "^FAILURE" "$log" | sed -E 's/^FAILURE property=[A-Z0-9]+ signature=(.*) :: .*/\1/' | cut -c1-120)
  rp=$(grep -m1 "^VIOLATION" "$log" | sed -E 's/.*replay=//')
  if [ "$rc" = 1 ] && [ -f "$rp" ]; then cp "$rp" "$DIR/replay-$c.json"; fi
  cp "$log" "$DIR/check-$c.log"
  RES="$RES{\"check\":\"$c\",\"exit\":$rc,\"signature\":\"$(printf '%s' "$sig" | sed 's/\\/\\\\/g; s/"/\\"/g')\"},"
done
python3 - "$DIR/meta.json" "[${RES%,}]" "$(git -C "$VERIF" rev-parse --short HEAD)" <<'PY'
import json,sys
p,res,head=sys.argv[1:4]
m=json.load(open(p)); m["checks"]=json.loads(res); m["detected"]=any(c["exit"]==1 for c in m["checks"]); m["rechecked_with_verif_commit"]=head
json.dump(m,open(p,"w"),indent=1)
print(m["id"],"DETECTED" if m["detected"] else "MISSED",[(c["check"],c["exit"],c["signature"]) for c in m["checks"]])
PY
