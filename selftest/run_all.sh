#!/usr/bin/env bash
# selftest/run_all.sh [lanes]   every catalogue mutation through selftest/run.sh
cd "$(dirname "$0")/.."
: > selftest/RESULTS.tsv
ls selftest/mutations/*.patch | xargs -P "${1:-2}" -I{} selftest/run.sh {} >/dev/null
sort -o selftest/RESULTS.tsv selftest/RESULTS.tsv
awk -F'\t' '{c[$3]++} END{for(k in c) print c[k], k}' selftest/RESULTS.tsv
