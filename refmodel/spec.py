#!/usr/bin/env python3
"""Python transcription of the *unoptimised* Decaf377 specification functions of
ristretto.sage (Decaf_1_1_Point.{encodeSpec, decodeSpec, elligatorSpec}; cofactor 4,
isoMagic = 1, qnr = zeta). This is the text that was validated against the native code in
round 0 (DESIGN.md Appendix C). `setup.sh` cross-checks the Rust port
(harness/src/refmodel/mod.rs) against it:  decaf-verif spec-vectors | spec.py --check
"""
import sys, json

q    = 0x12ab655e9a2ca55660b44d1e5c37b00159aa76fed00000010a11800000000001
zeta = 2841681278031794617739547238867782961338435681360110683443920362658525667816
a = q - 1; d = 3021

def inv(x):  return pow(x, q-2, q)
def issq(x): x %= q; return x == 0 or pow(x, (q-1)//2, q) == 1
def neg(x):  return (x % q) & 1
def sqrt(x):                       # Tonelli-Shanks, any root
    x %= q
    if x == 0: return 0
    assert issq(x)
    s = 0; t = q-1
    while t % 2 == 0: t //= 2; s += 1
    c = pow(zeta, t, q); R = pow(x, (t+1)//2, q); tt = pow(x, t, q); m = s
    while tt != 1:
        i = 0; t2 = tt
        while t2 != 1: t2 = t2*t2 % q; i += 1
        b = pow(c, 1 << (m-i-1), q); R = R*b % q; c = b*b % q; tt = tt*c % q; m = i
    return R
class Invalid(Exception): pass
def xsqrt(x):                      # the non-negative root, or fail
    if not issq(x): raise Invalid()
    s = sqrt(x)
    return (-s) % q if neg(s) else s
def oncurve(x, y): return (y*y + a*x*x - 1 - d*x*x*y*y) % q == 0
def add(P, Q):
    x, y = P; X, Y = Q
    return ((x*Y + y*X) * inv(1 + d*x*y*X*Y) % q, (y*Y - a*x*X) * inv(1 - d*x*y*X*Y) % q)
def encodeSpec(P):
    x, y = P
    if x == 0 or y == 0: return 0
    sr = xsqrt(1 - a*x*x)
    altx = x*y*inv(sr) % q
    s = (1+sr)*inv(x) % q if neg(altx) else (1-sr)*inv(x) % q
    return (-s) % q if neg(s) else s
def decodeSpec(s):                 # s: the little-endian integer of the 32 bytes
    if s >= q or neg(s): raise Invalid()
    if s == 0: return (0, 1)
    disc = (a*a*pow(s, 4, q) + 2*(a - 2*d)*s*s + 1) % q
    t = xsqrt(disc)
    if t == 0: raise Invalid()     # Sage: division by zero
    if neg(2*s*inv(t) % q): t = (-t) % q
    if (1 + a*s*s) % q == 0: raise Invalid()
    x = 2*s*inv(1 + a*s*s) % q
    y = (1 - a*s*s)*inv(t) % q
    if not oncurve(x, y): raise Invalid()
    return (x, y)
def fromJQ(s, t):
    return (0, 1) if s == 0 else (2*s*inv(1 + a*s*s) % q, (1 - a*s*s)*inv(t) % q)
def elligatorSpec(r0):
    r = zeta*r0*r0 % q
    den = (d*r - (d-a)) * ((d-a)*r - d) % q
    if den == 0: return (0, 1)
    n1 = (r+1)*(a - 2*d)*inv(den) % q
    n2 = r*n1 % q
    if issq(n1): s = xsqrt(n1);          t = (-(r-1)*(a-2*d)**2*inv(den) - 1) % q
    else:        s = (-xsqrt(n2)) % q;   t = (r*(r-1)*(a-2*d)**2*inv(den) - 1) % q
    return fromJQ(s, t)

def check(stream):
    n = bad = 0
    for line in stream:
        v = json.loads(line); n += 1
        k = v["kind"]
        if k == "decode":
            s = int(v["s"], 16)
            try: want = "%x,%x" % decodeSpec(s)
            except Invalid: want = "invalid"
        elif k == "elligator":
            want = "%x,%x" % elligatorSpec(int(v["r0"], 16))
        elif k == "encode":
            want = "%x" % encodeSpec((int(v["x"], 16), int(v["y"], 16)))
        elif k == "add":
            want = "%x,%x" % add((int(v["x1"], 16), int(v["y1"], 16)), (int(v["x2"], 16), int(v["y2"], 16)))
        else:
            want = None
        if want != v["out"]:
            bad += 1
            print("MISMATCH", v, "python:", want, file=sys.stderr)
    print(f"spec.py: {n} vectors, {bad} mismatches")
    return 0 if (bad == 0 and n > 0) else 1

if __name__ == "__main__":
    if len(sys.argv) > 1 and sys.argv[1] == "--check":
        sys.exit(check(sys.stdin))
    print(__doc__)
