#!/usr/bin/env bash
# fuzz/run-fuzz.sh <ID> <repo>    coverage-guided supplement of the thorough tier (C02, C11, C12):
# builds the libFuzzer target against the tree under test and runs a fixed number of
# executions from the seed corpus. Exit 0 nothing found / 1 violation (VIOLATION line) /
# 2 infrastructure problem. Other properties: nothing to do (exit 0).
set -u
ID="$1"; REPO="$(cd "$2" && pwd)"
VERIF="$(cd "$(dirname "$0")/.." && pwd)"
# executions per job (8 parallel jobs); fixed work, not a time quota
case "$ID" in C02) T=c02_decode; RUNS=${VERIF_FUZZ_RUNS:-40000};; C11) T=c11_field_bytes; RUNS=${VERIF_FUZZ_RUNS:-400000};; C12) T=c12_diff; RUNS=${VERIF_FUZZ_RUNS:-15000};; *) exit 0;; esac
JOBS=${VERIF_FUZZ_JOBS:-8}
if [ "$REPO" = "/repo" ]; then KEY=main; else KEY="alt-$(printf '%s' "$REPO" | cksum | cut -d' ' -f1)"; fi
BUILD="$VERIF/build/$KEY"
[ -f "$BUILD/Cargo.toml" ] || { echo "run-fuzz: harness not built" >&2; exit 2; }
mkdir -p "$BUILD/fuzz"
sed -e "s#@VERIF@#$VERIF#g" "$VERIF/fuzz/Cargo.toml.in" > "$BUILD/fuzz/Cargo.toml.new"
cmp -s "$BUILD/fuzz/Cargo.toml.new" "$BUILD/fuzz/Cargo.toml" || mv "$BUILD/fuzz/Cargo.toml.new" "$BUILD/fuzz/Cargo.toml"
[ -f "$BUILD/fuzz/Cargo.lock" ] || cp "$VERIF/fuzz/Cargo.lock" "$BUILD/fuzz/Cargo.lock" 2>/dev/null || cp "$BUILD/Cargo.lock" "$BUILD/fuzz/Cargo.lock"
export CARGO_NET_OFFLINE=true VERIF_REPO_DIR="$REPO" VERIF_DIR="$VERIF" RUSTFLAGS="--cfg decaf377_verif -Awarnings"
if ! (cd "$BUILD" && cargo +nightly fuzz build -O --sanitizer none --fuzz-dir fuzz "$T" >"$BUILD/fuzz-build.log" 2>&1); then
  echo "run-fuzz: fuzz build failed (see $BUILD/fuzz-build.log)" >&2; tail -20 "$BUILD/fuzz-build.log" >&2; exit 2
fi
BIN="$BUILD/fuzz/target/x86_64-unknown-linux-gnu/release/$T"
CORPUS="$BUILD/fuzz/corpus-run-$T"; ART="$BUILD/fuzz/artifacts-$T"
rm -rf "$CORPUS" "$ART"; mkdir -p "$CORPUS" "$ART"
cp "$VERIF/fuzz/seeds/$ID"/* "$CORPUS/" 2>/dev/null
SEED="${VERIF_SEED:-0}"; [ "$SEED" = 0 ] && SEED=1
OUTDIR="${VERIF_OUT_DIR:-$VERIF}"
RUNDIR="$BUILD/fuzz/run-$T"; rm -rf "$RUNDIR"; mkdir -p "$RUNDIR"
(cd "$RUNDIR" && timeout -k 10 7200 "$BIN" "$CORPUS" -runs="$RUNS" -jobs="$JOBS" -workers="$JOBS" -seed="$SEED" -len_control=0 -max_len=256 -artifact_prefix="$ART/" -print_final_stats=1 >"$BUILD/fuzz-run-$T.log" 2>&1); rc=$?
cat "$RUNDIR"/fuzz-*.log >> "$BUILD/fuzz-run-$T.log" 2>/dev/null
execs=$(grep -E "stat::number_of_executed_units" "$BUILD/fuzz-run-$T.log" | awk '{s+=$2} END{print s+0}')
echo "$ID libFuzzer target $T: executions=${execs:-?} exit=$rc"
# append the campaign summary to the evidence file of this property
python3 - "$OUTDIR/evidence/$ID.json" "$T" "${execs:-0}" "$rc" <<'PY'
import json,sys
p,t,e,rc=sys.argv[1:5]
try:
    ev=json.load(open(p)); ev['coverage']['libfuzzer']={"target":t,"executions":int(e),"exit":int(rc),"note":"coverage-guided supplement; the oracle inside the target is the same function as the proptest check"}
    json.dump(ev,open(p,'w'),indent=1)
except Exception as ex: print("run-fuzz: cannot update evidence:",ex,file=sys.stderr)
PY
if [ "$rc" = 0 ]; then exit 0; fi
if [ "$rc" = 124 ] || [ "$rc" = 137 ]; then echo "run-fuzz: watchdog expired" >&2; exit 2; fi
crash=$(ls "$ART"/crash-* 2>/dev/null | head -1)
[ -n "$crash" ] || { echo "run-fuzz: target exited with $rc without an artefact (see $BUILD/fuzz-run-$T.log)" >&2; exit 2; }
mkdir -p "$OUTDIR/replays"
rp="$OUTDIR/replays/$ID-fuzz-$(basename "$crash" | cut -c7-22).json"
"$BUILD/target/release/decaf-verif" case-from-fuzz "$ID" "$crash" "$rp" || { echo "run-fuzz: cannot convert artefact" >&2; exit 2; }
grep -m1 "ORACLE-FAILURE" "$BUILD/fuzz-run-$T.log" | sed 's/^ORACLE-FAILURE/FAILURE/'
# confirm through the ordinary replay path (same oracle, no fuzzer)
(cd "$VERIF" && VERIF_REPO="$REPO" ./check "$ID" --replay "$rp" | grep -E "^(VIOLATION|KNOWN-FINDING)") && exit 1
echo "run-fuzz: artefact does not reproduce through --replay (inconclusive)" >&2; exit 2
