#![no_main]
//! libFuzzer target for C12: decodes the bytes into the property's case type and calls the
//! same oracle as the proptest check; a failed oracle aborts (recorded as a crash artefact).
use decaf_verif::engine::Property;
use libfuzzer_sys::fuzz_target;

fuzz_target!(|data: &[u8]| {
    if let Some(case) = decaf_verif::fuzzdec::c12_case(data) {
        let r = decaf_verif::fuzzdec::eval("C12", |ctx| decaf_verif::props::c12::C12.check(&case, ctx));
        if let Err(f) = r {
            eprintln!("ORACLE-FAILURE property=C12 signature={} :: {}", f.signature, f.message);
            std::process::abort();
        }
    }
});
