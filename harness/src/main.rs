use decaf_verif::engine::{Env, Tier};
use std::path::Path;

fn main() {
    let args: Vec<String> = std::env::args().collect();
    let env = Env::from_env();
    let code = match args.get(1).map(|s| s.as_str()) {
        Some("run") if args.len() >= 4 => {
            let tier = match args[3].as_str() {
                "quick" => Tier::Quick,
                "thorough" => Tier::Thorough,
                t => {
                    eprintln!("unknown tier {t}");
                    std::process::exit(2)
                }
            };
            decaf_verif::props::run(&args[2], tier, &env)
        }
        Some("replay") if args.len() >= 4 => decaf_verif::props::replay(&args[2], Path::new(&args[3]), &env),
        Some("list") => {
            for id in decaf_verif::props::IDS {
                println!("{id}");
            }
            0
        }
        _ => {
            eprintln!("usage: decaf-verif run <ID> <quick|thorough> | replay <ID> <file> | list");
            2
        }
    };
    std::process::exit(code);
}
