use decaf_verif::engine::{Env, Tier};
use std::path::Path;

fn main() {
    let args: Vec<String> = std::env::args().collect();
    let env = Env::from_env();
    let code = match args.get(1).map(|s| s.as_str()) {
        Some("run") if args.len() >= 4 => {
            let tier = match args[3].as_str() {
                "quick" => Tier::Quick,
                "thorough" => Tier::Thorough,
                t => {
                    eprintln!("unknown tier {t}");
                    std::process::exit(2)
                }
            };
            decaf_verif::props::run(&args[2], tier, &env)
        }
        Some("replay") if args.len() >= 4 => decaf_verif::props::replay(&args[2], Path::new(&args[3]), &env),
        Some("case-from-fuzz") if args.len() >= 5 => {
            // decaf-verif case-from-fuzz <ID> <artifact> <out.json>: turn a libFuzzer artefact into a replay file
            let data = std::fs::read(&args[3]).unwrap_or_default();
            let v = match args[2].as_str() {
                "C02" => decaf_verif::fuzzdec::c02_case(&data).map(|c| serde_json::to_value(c).unwrap()),
                "C11" => decaf_verif::fuzzdec::c11_case(&data).map(|c| serde_json::to_value(c).unwrap()),
                "C12" => decaf_verif::fuzzdec::c12_case(&data).map(|c| serde_json::to_value(c).unwrap()),
                _ => None,
            };
            match v {
                Some(case) => {
                    let j = serde_json::json!({"property": args[2], "origin": format!("libFuzzer artefact {}", args[3]), "case": case});
                    std::fs::write(&args[4], serde_json::to_string_pretty(&j).unwrap()).map(|_| 0).unwrap_or(2)
                }
                None => 2,
            }
        }
        Some("spec-vectors") => {
            // vectors of the Rust reference model, to be cross-checked by refmodel/spec.py
            decaf_verif::refmodel::print_spec_vectors();
            0
        }
        Some("list") => {
            for id in decaf_verif::props::IDS {
                println!("{id}");
            }
            0
        }
        _ => {
            eprintln!("usage: decaf-verif run <ID> <quick|thorough> | replay <ID> <file> | list");
            2
        }
    };
    std::process::exit(code);
}
