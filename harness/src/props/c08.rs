//! C08 — equality, hashing and identity tests are mutually coherent (DESIGN §5/C08).

use crate::api::{ark, min, Ark, Backend, Min};
use crate::engine::{Ctx, Failure, Property, Tier};
use crate::props::common::{backend, Bk};
use crate::recipe::{self, judge_fast, Recipe};
use crate::refmodel::CURVE;
use proptest::prelude::*;
use serde::{Deserialize, Serialize};
use std::hash::{Hash, Hasher};

pub struct C08;

#[derive(Clone, Debug, Serialize, Deserialize)]
pub struct Case {
    pub bk: Bk,
    pub r1: Recipe,
    pub r2: Recipe,
}

/// records the whole byte stream fed to the hasher
#[derive(Default)]
struct Recorder(Vec<u8>);
impl Hasher for Recorder {
    fn finish(&self) -> u64 {
        0
    }
    fn write(&mut self, bytes: &[u8]) {
        self.0.extend_from_slice(bytes);
    }
}

fn hashes<T: Hash + ?Sized>(x: &T) -> (u64, Vec<u8>) {
    let mut d = std::collections::hash_map::DefaultHasher::new();
    x.hash(&mut d);
    let mut r = Recorder::default();
    x.hash(&mut r);
    (d.finish(), r.0)
}

type AE = ark::Element;
type AA = <ark::Element as ark_ec::CurveGroup>::Affine;

fn check_ark(r1: &Recipe, r2: &Recipe, ctx: &mut Ctx) -> Result<(), Failure> {
    use ark_ec::{AffineRepr, CurveGroup};
    use ark_std::Zero;
    let c = &*CURVE;
    let (m1, m2) = (r1.model(), r2.model());
    let (e1, e2) = (r1.lib::<Ark>(&m1), r2.lib::<Ark>(&m2));
    let p1 = judge_fast::<Ark>(&e1, &m1.pt).map_err(|w| Failure { signature: "C08|ark|recipe-result-wrong".into(), message: w })?;
    let p2 = judge_fast::<Ark>(&e2, &m2.pt).map_err(|w| Failure { signature: "C08|ark|recipe-result-wrong".into(), message: w })?;
    let same = c.same_element(&m1.pt, &m2.pt);
    ctx.class(if same { "ark:pair:same" } else { "ark:pair:different" });
    if same && p1 != p2 {
        ctx.class("ark:pair:same-element-different-curve-point");
        ctx.nontrivial();
    }
    let (a1, a2): (AA, AA) = (e1.into_affine(), e2.into_affine());

    // equality <=> same element <=> same encoding
    if (e1 == e2) != same || (e2 == e1) != same || (e1 != e2) == same {
        ctx.report("C08|ark:Element|eq", format!("Element == is {} but the model elements are {}", e1 == e2, if same { "equal" } else { "different" }))?;
    }
    if (a1 == a2) != same || (a2 == a1) != same {
        ctx.report("C08|ark:AffinePoint|eq", format!("AffinePoint == is {} but the model elements are {}", a1 == a2, if same { "equal" } else { "different" }))?;
    }
    let (b1, b2) = (e1.vartime_compress(), e2.vartime_compress());
    if (b1 == b2) != same {
        ctx.report("C08|ark:Element|encoding-vs-equality", format!("encodings equal: {}, model elements equal: {}", b1 == b2, same))?;
    }
    // equal => equal hashes (both the 64-bit result and the byte stream fed to the hasher)
    if same {
        let (h1, h2) = (hashes(&e1), hashes(&e2));
        if h1 != h2 {
            ctx.report("C08|ark:Element|hash", "equal elements (different internal representatives) hash differently".to_string())?;
        }
        let (h1, h2) = (hashes(&a1), hashes(&a2));
        if h1 != h2 {
            ctx.report("C08|ark:AffinePoint|hash", "equal affine points (different representatives) hash differently".to_string())?;
        }
        // containers hash through Hash::hash_slice: slices, arrays, Vec, tuples, Option of equal values
        let g = AE::GENERATOR;
        if hashes(&[e1, g][..]) != hashes(&[e2, g][..]) || hashes(&vec![g, e1]) != hashes(&vec![g, e2]) || hashes(&[e1; 3]) != hashes(&[e2; 3]) || hashes(&(e1, 7u8)) != hashes(&(e2, 7u8)) || hashes(&Some(e1)) != hashes(&Some(e2)) {
            ctx.report("C08|ark:Element|hash-of-container", "containers (slice / Vec / array / tuple / Option) of equal elements hash differently".to_string())?;
        }
        let ga: AA = g.into_affine();
        if hashes(&[a1, ga][..]) != hashes(&[a2, ga][..]) || hashes(&vec![ga, a1]) != hashes(&vec![ga, a2]) || hashes(&Some(a1)) != hashes(&Some(a2)) {
            ctx.report("C08|ark:AffinePoint|hash-of-container", "containers of equal affine points hash differently".to_string())?;
        }
        // every serialisation mode the library implements writes the same bytes for equal values
        {
            use ark_serialize::{CanonicalSerialize, Compress};
            use std::panic::{catch_unwind, AssertUnwindSafe};
            for mode in [Compress::Yes, Compress::No] {
                let ser_e = |e: &AE| catch_unwind(AssertUnwindSafe(|| { let mut v = Vec::new(); e.serialize_with_mode(&mut v, mode).map(|_| v).ok() })).ok().flatten();
                let ser_a = |a: &AA| catch_unwind(AssertUnwindSafe(|| { let mut v = Vec::new(); a.serialize_with_mode(&mut v, mode).map(|_| v).ok() })).ok().flatten();
                if let (Some(x), Some(y)) = (ser_e(&e1), ser_e(&e2)) {
                    if x != y {
                        ctx.report("C08|ark:Element|serialization-of-equal-values", format!("equal elements serialise differently ({})", if matches!(mode, Compress::Yes) { "compressed" } else { "uncompressed" }))?;
                    }
                }
                if let (Some(x), Some(y)) = (ser_a(&a1), ser_a(&a2)) {
                    if x != y {
                        ctx.report("C08|ark:AffinePoint|serialization-of-equal-values", format!("equal affine points serialise differently ({})", if matches!(mode, Compress::Yes) { "compressed" } else { "uncompressed" }))?;
                    }
                }
            }
        }
    } else {
        // not required by the property, but recorded: unequal elements with equal hash streams
        if hashes(&e1).1 == hashes(&e2).1 {
            ctx.class("ark:unequal-elements-equal-hash-stream");
        }
    }
    // the same element reached through AffinePoint operator forms must be indistinguishable from a1:
    // equal, same hash stream, same encoding (an un-normalised result still satisfies x1*y2 == x2*y1)
    {
        let s_aff: AA = e2.into_affine();
        let sum_aff: AA = (e1 + e2).into_affine();
        let mut via_sub_assign = sum_aff;
        via_sub_assign -= s_aff;
        let mut via_sub_assign_ref = sum_aff;
        via_sub_assign_ref -= &s_aff;
        let via_sub: AA = &sum_aff - &s_aff;
        let mut via_add_assign: AA = (e1 - e2).into_affine();
        via_add_assign += &s_aff;
        let via_add: AA = &((e1 - e2).into_affine()) + &s_aff;
        let mut via_mul_assign = a1;
        via_mul_assign *= crate::api::arkf::fr(&crate::refmodel::N::from(1u32));
        let via_neg: AA = -(-a1);
        // the boundary scalars of the affine multiplication entry points: [1]A, [r+1]A, 1 * A
        let via_mul_bigint_1: AA = a1.mul_bigint([1u64]).into_affine();
        let via_mul_bigint_1p: AA = a1.mul_bigint([1u64, 0, 0, 0]).into_affine();
        let via_mul_bigint_r1: AA = a1.mul_bigint((&crate::refmodel::R.m + 1u32).to_u64_digits()).into_affine();
        let via_mul_fr_1: AA = (a1 * crate::api::arkf::fr(&crate::refmodel::N::from(1u32))).into_affine();
        // the same routes without normalising in between: the Element they return must encode / hash like e1
        for (name, y) in [("mul_bigint([1])", a1.mul_bigint([1u64])), ("mul_bigint([1,0,0,0])", a1.mul_bigint([1u64, 0, 0, 0])), ("A * 1", a1 * crate::api::arkf::fr(&crate::refmodel::N::from(1u32))), ("mul_bigint([2]) - A", a1.mul_bigint([2u64]) - a1)] {
            ctx.sub_eval();
            if !(y == e1) || y.vartime_compress().0 != e1.vartime_compress().0 || hashes(&y) != hashes(&e1) {
                ctx.report(format!("C08|ark:AffinePoint::{name}|encoding-vs-equality"), format!("the element returned by {name} equals the element: {}, same encoding: {}, same hash: {}", y == e1, y.vartime_compress().0 == e1.vartime_compress().0, hashes(&y) == hashes(&e1)))?;
            }
        }
        for (name, x) in [("-=", via_sub_assign), ("-=&", via_sub_assign_ref), ("&-&", via_sub), ("+=&", via_add_assign), ("&+&", via_add), ("*=1", via_mul_assign), ("neg-neg", via_neg), ("mul_bigint([1])", via_mul_bigint_1), ("mul_bigint([1,0,0,0])", via_mul_bigint_1p), ("mul_bigint(r+1)", via_mul_bigint_r1), ("*1", via_mul_fr_1)] {
            ctx.sub_eval();
            let xe: AE = x.into_group();
            if !(x == a1) || !(a1 == x) {
                ctx.report(format!("C08|ark:AffinePoint({name})|eq"), format!("AffinePoint obtained through {name} does not compare equal to the same element"))?;
            }
            if xe.vartime_compress().0 != e1.vartime_compress().0 {
                ctx.report(format!("C08|ark:AffinePoint({name})|encoding-vs-equality"), format!("AffinePoint obtained through {name} compares equal to the element but encodes to {} instead of {}", hex::encode(xe.vartime_compress().0), hex::encode(e1.vartime_compress().0)))?;
            }
            if hashes(&x) != hashes(&a1) {
                ctx.report(format!("C08|ark:AffinePoint({name})|hash"), format!("AffinePoint obtained through {name} compares equal to the element but hashes differently"))?;
            }
        }
    }
    // the Encoding type's own ==, != and cmp see every byte
    {
        let enc = e1.vartime_compress();
        for (i, bit) in [(0usize, 1u8), (15, 0x80), (30, 1), (31, 1), (31, 0x10), (31, 0x80)] {
            ctx.sub_eval();
            let mut other = enc;
            other.0[i] ^= bit;
            if enc == other || !(enc != other) || enc.cmp(&other) == std::cmp::Ordering::Equal || enc.partial_cmp(&other) == Some(std::cmp::Ordering::Equal) {
                ctx.report("C08|ark:Encoding|eq".to_string(), format!("two encodings that differ in byte {i} compare equal"))?;
            }
        }
        if !(b1 == b2) == (b1.0 == b2.0) || (b1.cmp(&b2) == std::cmp::Ordering::Equal) != (b1.0 == b2.0) {
            ctx.report("C08|ark:Encoding|eq".to_string(), "Encoding == / cmp disagree with equality of the 32 bytes".to_string())?;
        }
    }
    // identity predicates agree with the model for every representation
    for (e, a, m) in [(e1, a1, &m1), (e2, a2, &m2)] {
        let is_id = c.is_identity_element(&m.pt);
        ctx.class(if is_id { "ark:identity-representation" } else { "ark:non-identity" });
        let preds: [(&str, bool); 9] = [
            ("Element::is_identity", e.is_identity()),
            ("Element Zero::is_zero", e.is_zero()),
            ("Element==IDENTITY", e == AE::IDENTITY),
            ("Element==default", e == AE::default()),
            ("Element==Zero::zero", e == AE::zero()),
            ("AffinePoint::is_zero", a.is_zero()),
            ("AffinePoint==zero", a == AA::zero()),
            ("AffinePoint==default", a == AA::default()),
            ("encoding==0", e.vartime_compress().0 == [0u8; 32]),
        ];
        for (name, v) in preds {
            ctx.sub_eval();
            if v != is_id {
                ctx.report(format!("C08|ark:{name}|identity-predicate"), format!("{name} = {v} on a representation of {}", if is_id { "the identity" } else { "a non-identity element" }))?;
            }
        }
    }
    Ok(())
}

fn check_min(r1: &Recipe, r2: &Recipe, ctx: &mut Ctx) -> Result<(), Failure> {
    let c = &*CURVE;
    let (m1, m2) = (r1.model(), r2.model());
    let (e1, e2) = (r1.lib::<Min>(&m1), r2.lib::<Min>(&m2));
    let p1 = judge_fast::<Min>(&e1, &m1.pt).map_err(|w| Failure { signature: "C08|min|recipe-result-wrong".into(), message: w })?;
    let p2 = judge_fast::<Min>(&e2, &m2.pt).map_err(|w| Failure { signature: "C08|min|recipe-result-wrong".into(), message: w })?;
    let same = c.same_element(&m1.pt, &m2.pt);
    ctx.class(if same { "min:pair:same" } else { "min:pair:different" });
    if same && p1 != p2 {
        ctx.class("min:pair:same-element-different-curve-point");
        ctx.nontrivial();
    }
    if (e1 == e2) != same || (e2 == e1) != same || (e1 != e2) == same {
        ctx.report("C08|min:Element|eq", format!("Element == is {} but the model elements are {}", e1 == e2, if same { "equal" } else { "different" }))?;
    }
    if (e1.vartime_compress() == e2.vartime_compress()) != same {
        ctx.report("C08|min:Element|encoding-vs-equality", format!("encodings equal: {}, model elements equal: {}", e1.vartime_compress() == e2.vartime_compress(), same))?;
    }
    {
        let (b1, b2) = (e1.vartime_compress(), e2.vartime_compress());
        for (i, bit) in [(0usize, 1u8), (15, 0x80), (30, 1), (31, 1), (31, 0x10), (31, 0x80)] {
            ctx.sub_eval();
            let mut other = b1;
            other.0[i] ^= bit;
            if b1 == other || !(b1 != other) || b1.cmp(&other) == std::cmp::Ordering::Equal || b1.partial_cmp(&other) == Some(std::cmp::Ordering::Equal) {
                ctx.report("C08|min:Encoding|eq".to_string(), format!("two encodings that differ in byte {i} compare equal"))?;
            }
        }
        if (b1 == b2) != (b1.0 == b2.0) || (b1.cmp(&b2) == std::cmp::Ordering::Equal) != (b1.0 == b2.0) {
            ctx.report("C08|min:Encoding|eq".to_string(), "Encoding == / cmp disagree with equality of the 32 bytes".to_string())?;
        }
    }
    for (e, m) in [(e1, &m1), (e2, &m2)] {
        let is_id = c.is_identity_element(&m.pt);
        ctx.class(if is_id { "min:identity-representation" } else { "min:non-identity" });
        let preds: [(&str, bool); 3] = [("Element::is_identity", e.is_identity()), ("Element==IDENTITY", e == min::Element::IDENTITY), ("encoding==0", e.vartime_compress().0 == [0u8; 32])];
        for (name, v) in preds {
            ctx.sub_eval();
            if v != is_id {
                ctx.report(format!("C08|min:{name}|identity-predicate"), format!("{name} = {v} on a representation of {}", if is_id { "the identity" } else { "a non-identity element" }))?;
            }
        }
    }
    Ok(())
}

fn equal_pair() -> BoxedStrategy<(Recipe, Recipe)> {
    (recipe::recipe_small(), recipe::recipe_small(), 0u8..17, any::<u8>())
        .prop_map(|(p, q, w, i)| {
            use Recipe::*;
            let b = |r: &Recipe| Box::new(r.clone());
            match w {
                0 => (MinusOneTimes(b(&q)), Neg(b(&q))),
                1 => (AddSub(b(&p), b(&q)), p),
                2 => (Torsion(b(&p)), p),
                3 => (Add(b(&q), Box::new(MinusOneTimes(b(&q)))), Identity),
                4 => (Sub(b(&p), b(&p)), Torsion(Box::new(Identity))),
                5 => (AffineRoundTrip(Box::new(Torsion(b(&p)))), Double(Box::new(Mul(crate::gen::Num((&crate::refmodel::R.m + 1u32) >> 1), b(&p))))),
                6 => (ReDecode(b(&p)), Torsion(b(&p))),
                // both sides normalised to Z = 1, different coset representatives
                8 => (AffineRoundTrip(Box::new(Torsion(b(&p)))), AffineRoundTrip(b(&p))),
                9 => (AffineRoundTrip(Box::new(MinusOneTimes(b(&q)))), AffineRoundTrip(Box::new(Neg(b(&q))))),
                10 => (ReDecode(b(&p)), AffineRoundTrip(Box::new(Torsion(b(&p))))),
                11 => (Neg(b(&p)), ReDecode(Box::new(Neg(b(&p))))),
                // an identity that came out of arithmetic (Z != 1, either representative) as an operand of
                // every operator / iterator form
                12 => (AddVia(i, Box::new(Sub(b(&p), b(&p))), b(&q)), q),
                13 => (AddVia(i, b(&q), Box::new(Sub(b(&p), b(&p)))), q),
                14 => (SubVia(i, b(&q), Box::new(Add(b(&p), Box::new(MinusOneTimes(b(&p)))))), q),
                15 => (Sum3Via(i, Box::new(Sub(b(&p), b(&p))), b(&q), Box::new(Torsion(Box::new(Identity)))), q),
                16 => (AddVia(i, b(&p), b(&q)), AddVia(i.wrapping_add(7), b(&q), b(&p))),
                _ => (Add(b(&p), b(&q)), Add(b(&q), Box::new(Torsion(b(&p))))),
            }
        })
        .boxed()
}

impl Property for C08 {
    type Case = Case;
    const ID: &'static str = "C08";
    fn rule(&self) -> String {
        "cases: pairs of element recipes, half constructed equal through different internal representatives ((r-1)*Q vs -Q, P+Q-Q vs P, P+T2 vs P, \
         Q+(r-1)*Q vs identity, P-P vs T2, ...), half independent; for Element and AffinePoint: == <=> model equality <=> equal encodings, equal => \
         equal hashes (DefaultHasher result and the recorded byte stream; also of slices, Vec, arrays, tuples and Option of equal values), equal serialisations in every mode the library implements, != is the negation of ==, and all 9 (ark) / 3 (min) identity predicates agree with the model on \
         every representation. Non-trivial: model-equal pair whose hook coordinates denote different curve points; distinct by digest"
            .into()
    }
    fn assumptions(&self) -> Vec<String> {
        vec!["min has no Hash/Zero impls; there ==, is_identity, == IDENTITY and the encoding are checked".into()]
    }
    fn cases(&self, tier: Tier) -> u64 {
        tier.pick(24_000, 1_200_000)
    }
    fn strategy(&self, _tier: Tier) -> BoxedStrategy<Case> {
        prop_oneof![
            1 => (backend(5, 1), equal_pair()).prop_map(|(bk, (r1, r2))| Case { bk, r1, r2 }),
            1 => (backend(5, 1), recipe::recipe_small(), recipe::recipe_small()).prop_map(|(bk, r1, r2)| Case { bk, r1, r2 }),
            // elements whose affine x has a sparse Montgomery representation, against the identity and against their own negation
            1 => (backend(1, 2), crate::gen::mont_sparse(&crate::refmodel::Q.m), 0u8..3).prop_map(|(bk, x, w)| {
                use Recipe::*;
                let p = FromX(x);
                let other = match w { 0 => Identity, 1 => Neg(Box::new(p.clone())), _ => Torsion(Box::new(Identity)) };
                Case { bk, r1: p, r2: other }
            }),
        ]
        .boxed()
    }
    fn edges(&self, _tier: Tier) -> Vec<Case> {
        use Recipe::*;
        let g = || Box::new(Generator);
        let pairs = vec![
            (MinusOneTimes(g()), Neg(g())),
            (Add(g(), Box::new(MinusOneTimes(g()))), Identity),
            (Torsion(Box::new(Identity)), Identity),
            (Torsion(Box::new(Identity)), Default),
            (Torsion(g()), Generator),
            (Generator, Neg(g())),
            (Generator, Identity),
            (MulLimbs(crate::refmodel::R.m.to_u64_digits(), g()), Sub(g(), g())),
            (AffineRoundTrip(Box::new(Torsion(Box::new(Identity)))), Identity),
        ];
        let mut v = Vec::new();
        for bk in [Bk::Ark, Bk::Min] {
            for (a, b) in &pairs {
                v.push(Case { bk, r1: a.clone(), r2: b.clone() });
            }
        }
        v
    }
    fn check(&self, case: &Case, ctx: &mut Ctx) -> Result<(), Failure> {
        match case.bk {
            Bk::Ark => check_ark(&case.r1, &case.r2, ctx),
            Bk::Min => check_min(&case.r1, &case.r2, ctx),
        }
    }
    fn shrink_candidates(&self, case: &Case) -> Vec<Case> {
        let mut v: Vec<Case> = case.r1.shrinks().into_iter().map(|r| Case { bk: case.bk, r1: r, r2: case.r2.clone() }).collect();
        v.extend(case.r2.shrinks().into_iter().map(|r| Case { bk: case.bk, r1: case.r1.clone(), r2: r }));
        v
    }
    fn required_classes(&self, _tier: Tier) -> Vec<String> {
        ["ark:pair:same-element-different-curve-point", "min:pair:same-element-different-curve-point", "ark:pair:different", "ark:identity-representation", "min:identity-representation"]
            .iter()
            .map(|s| s.to_string())
            .collect()
    }
}
