//! C10 — field arithmetic is exact arithmetic mod p in all three fields, both backends
//! (DESIGN §5/C10). Short chains of operations over every operator / method form; after
//! every step the accumulator's canonical bytes must equal the big-integer model.

use crate::engine::{Ctx, Failure, Property, Tier};
use crate::gen::{self, classify_fe, pick, Num};
use crate::props::common::Bk;
use crate::refmodel::{Fld, N, P, Q, R};
use num_traits::{One, Zero};
use proptest::prelude::*;
use serde::{Deserialize, Serialize};

pub struct C10;

#[derive(Clone, Copy, Debug, Serialize, Deserialize, PartialEq, Eq, Hash)]
pub enum FId {
    Fq,
    Fr,
    Fp,
}
impl FId {
    pub fn fld(self) -> &'static Fld {
        match self {
            FId::Fq => &Q,
            FId::Fr => &R,
            FId::Fp => &P,
        }
    }
    pub fn name(self) -> &'static str {
        match self {
            FId::Fq => "Fq",
            FId::Fr => "Fr",
            FId::Fp => "Fp",
        }
    }
}

/// availability of a form
#[derive(Clone, Copy, PartialEq, Eq)]
pub enum Avail {
    All,
    ArkOnly,
    FqOnly,
}

macro_rules! fforms {
    ($( $name:ident : $avail:ident ;)*) => {
        #[derive(Clone, Copy, Debug, Serialize, Deserialize, PartialEq, Eq, Hash)]
        pub enum FForm { $($name),* }
        pub const ALL_FFORMS: &[FForm] = &[$(FForm::$name),*];
        impl FForm {
            pub fn avail(self) -> Avail { match self { $(FForm::$name => Avail::$avail),* } }
            pub fn name(self) -> &'static str { match self { $(FForm::$name => stringify!($name)),* } }
        }
    };
}

fforms! {
    AddVal: All; AddRef: All; AddMut: All; AddAssignVal: All; AddAssignRef: All; AddAssignMut: All;
    SubVal: All; SubRef: All; SubMut: All; SubAssignVal: All; SubAssignRef: All; SubAssignMut: All;
    MulVal: All; MulRef: All; MulMut: All; MulAssignVal: All; MulAssignRef: All; MulAssignMut: All;
    DivVal: All; DivRef: All; DivMut: All; DivAssignVal: All; DivAssignRef: All; DivAssignMut: All;
    InhAdd: All; InhSub: All; InhMul: All;
    NegOp: All; InhNeg: All; InhSquare: All; InhInverse: All;
    SumOwned: All; SumRef: All; ProductOwned: All; ProductRef: All; ZeroizeThenAdd: All;
    FDouble: ArkOnly; FDoubleInPlace: ArkOnly; FNegInPlace: ArkOnly; FSquare: ArkOnly; FSquareInPlace: ArkOnly;
    FInverse: ArkOnly; FInverseInPlace: ArkOnly; FPow: ArkOnly; FSumOfProducts: ArkOnly; FFrobenius: ArkOnly;
    FZeroOne: ArkOnly; FPowWithTable: ArkOnly; FBasePrime: ArkOnly; FBatchInverse: ArkOnly; FLegendreSqrt: ArkOnly;
    Power: FqOnly; CondSelect: FqOnly; CondAssign: FqOnly; CondSwap: FqOnly; CtEq: FqOnly;
}

pub fn forms_for(bk: Bk, f: FId) -> Vec<FForm> {
    ALL_FFORMS
        .iter()
        .copied()
        .filter(|x| match x.avail() {
            Avail::All => true,
            Avail::ArkOnly => bk == Bk::Ark,
            Avail::FqOnly => f == FId::Fq,
        })
        .collect()
}

#[derive(Clone, Debug, Serialize, Deserialize, PartialEq, Eq, Hash)]
pub struct Step {
    pub form: FForm,
    pub x: Num,
    pub y: Num,
    /// exponent limbs (pow / power) ; number of iterator items = n % 4
    pub limbs: Vec<u64>,
    pub n: u8,
    pub flag: bool,
    /// relation of the operand to the accumulator: 0 (or absent) = `x` as given; 1: x := acc;
    /// 2: x := -acc; 3: x := acc + (rv << 64*(rk mod limbs)) * R^-1, i.e. a value whose
    /// *Montgomery representation* differs from acc's in one limb; 4: x := acc + 2^(rk mod bits);
    /// 5: x := the operand for which this (binary) step's result equals `y`
    #[serde(default)]
    pub rel: u8,
    #[serde(default)]
    pub rk: u16,
    #[serde(default)]
    pub rv: u64,
}

/// the operand actually used at this step
pub fn eff_x(f: &Fld, acc: &N, s: &Step) -> N {
    let nlimbs = ((f.bits + 63) / 64) as u64;
    match s.rel {
        1 => acc.clone(),
        2 => f.neg(acc),
        3 => {
            let r = N::one() << (64 * nlimbs);
            let rinv = f.inv(&(r % &f.m)).expect("R invertible");
            let d = N::from(s.rv) << (64 * (s.rk as u64 % nlimbs));
            f.add(acc, &f.mul(&(d % &f.m), &rinv))
        }
        4 => f.add(acc, &((N::one() << (s.rk as u64 % f.bits as u64)) % &f.m)),
        // the operand that makes this step's *result* equal to the target y (binary forms only)
        5 => {
            use FForm::*;
            let t = &s.y.0 % &f.m;
            match s.form {
                AddVal | AddRef | AddMut | AddAssignVal | AddAssignRef | AddAssignMut | InhAdd => f.sub(&t, acc),
                SubVal | SubRef | SubMut | SubAssignVal | SubAssignRef | SubAssignMut | InhSub => f.sub(acc, &t),
                MulVal | MulRef | MulMut | MulAssignVal | MulAssignRef | MulAssignMut | InhMul => match f.inv(acc) {
                    Some(i) => f.mul(&t, &i),
                    None => t,
                },
                DivVal | DivRef | DivMut | DivAssignVal | DivAssignRef | DivAssignMut => match f.inv(&t) {
                    Some(i) if !acc.is_zero() => f.mul(acc, &i),
                    _ => N::one(),
                },
                _ => t,
            }
        }
        _ => &s.x.0 % &f.m,
    }
}

#[derive(Clone, Debug, Serialize, Deserialize)]
pub struct Case {
    pub bk: Bk,
    pub f: FId,
    pub init: Num,
    pub steps: Vec<Step>,
}

pub enum Out<T> {
    Val(T),
    /// the operation reported "no value" (inverse of zero)
    NoValue,
    /// a side condition of the form failed (message)
    Bad(String),
}

pub enum MOut {
    Val(N),
    NoValue,
    /// outside the domain (division by zero): documented panic, excluded by construction
    Excluded,
}

pub fn model_step(f: &Fld, acc: &N, s: &Step) -> MOut {
    use FForm::*;
    let x = eff_x(f, acc, s);
    let y = &s.y.0 % &f.m;
    let k = (s.n % 4) as usize;
    let items: Vec<N> = [acc.clone(), x.clone(), y.clone()].into_iter().take(k).collect();
    match s.form {
        AddVal | AddRef | AddMut | AddAssignVal | AddAssignRef | AddAssignMut | InhAdd => MOut::Val(f.add(acc, &x)),
        SubVal | SubRef | SubMut | SubAssignVal | SubAssignRef | SubAssignMut | InhSub => MOut::Val(f.sub(acc, &x)),
        MulVal | MulRef | MulMut | MulAssignVal | MulAssignRef | MulAssignMut | InhMul => MOut::Val(f.mul(acc, &x)),
        DivVal | DivRef | DivMut | DivAssignVal | DivAssignRef | DivAssignMut => match f.inv(&x) {
            None => MOut::Excluded,
            Some(i) => MOut::Val(f.mul(acc, &i)),
        },
        NegOp | InhNeg | FNegInPlace => MOut::Val(f.neg(acc)),
        InhSquare | FSquare | FSquareInPlace => MOut::Val(f.sq(acc)),
        InhInverse | FInverse | FInverseInPlace => match f.inv(acc) {
            None => MOut::NoValue,
            Some(i) => MOut::Val(i),
        },
        ZeroizeThenAdd => MOut::Val(x.clone()),
        SumOwned | SumRef => MOut::Val(items.iter().fold(N::zero(), |a, b| f.add(&a, b))),
        ProductOwned | ProductRef => MOut::Val(items.iter().fold(N::one(), |a, b| f.mul(&a, b))),
        FDouble | FDoubleInPlace => MOut::Val(f.add(acc, acc)),
        FPow | Power | FPowWithTable => MOut::Val(f.pow(acc, &crate::api::int_of_limbs(&s.limbs))),
        FSumOfProducts => {
            let n = 1 + (s.limbs.len() % 5);
            let a = [acc.clone(), y.clone(), x.clone(), acc.clone(), y.clone()];
            let b = [x.clone(), acc.clone(), x.clone(), y.clone(), y.clone()];
            MOut::Val((0..n).fold(N::zero(), |t, i| f.add(&t, &f.mul(&a[i], &b[i]))))
        }
        FFrobenius | FZeroOne | CtEq | FLegendreSqrt => MOut::Val(acc.clone()),
        FBasePrime => MOut::Val(f.mul(acc, &x)),
        FBatchInverse => MOut::Val(if x.is_zero() { N::zero() } else { acc.clone() }),
        CondSelect | CondAssign | CondSwap => MOut::Val(if s.flag { x } else { acc.clone() }),
    }
}

/// operator and inherent forms every field type offers (both backends)
macro_rules! common_forms {
    ($T:ty, $form:expr, $acc:expr, $x:expr, $y:expr, $k:expr) => {{
        use FForm::*;
        let acc: $T = $acc;
        let x: $T = $x;
        let y: $T = $y;
        let items: Vec<$T> = [acc, x, y].into_iter().take($k).collect();
        match $form {
            AddVal => Some(Out::Val(acc + x)),
            AddRef => Some(Out::Val(acc + &x)),
            AddMut => {
                let mut t = x;
                Some(Out::Val(acc + &mut t))
            }
            AddAssignVal => {
                let mut a = acc;
                a += x;
                Some(Out::Val(a))
            }
            AddAssignRef => {
                let mut a = acc;
                a += &x;
                Some(Out::Val(a))
            }
            AddAssignMut => {
                let mut a = acc;
                let mut t = x;
                a += &mut t;
                Some(Out::Val(a))
            }
            SubVal => Some(Out::Val(acc - x)),
            SubRef => Some(Out::Val(acc - &x)),
            SubMut => {
                let mut t = x;
                Some(Out::Val(acc - &mut t))
            }
            SubAssignVal => {
                let mut a = acc;
                a -= x;
                Some(Out::Val(a))
            }
            SubAssignRef => {
                let mut a = acc;
                a -= &x;
                Some(Out::Val(a))
            }
            SubAssignMut => {
                let mut a = acc;
                let mut t = x;
                a -= &mut t;
                Some(Out::Val(a))
            }
            MulVal => Some(Out::Val(acc * x)),
            MulRef => Some(Out::Val(acc * &x)),
            MulMut => {
                let mut t = x;
                Some(Out::Val(acc * &mut t))
            }
            MulAssignVal => {
                let mut a = acc;
                a *= x;
                Some(Out::Val(a))
            }
            MulAssignRef => {
                let mut a = acc;
                a *= &x;
                Some(Out::Val(a))
            }
            MulAssignMut => {
                let mut a = acc;
                let mut t = x;
                a *= &mut t;
                Some(Out::Val(a))
            }
            DivVal => Some(Out::Val(acc / x)),
            DivRef => Some(Out::Val(acc / &x)),
            DivMut => {
                let mut t = x;
                Some(Out::Val(acc / &mut t))
            }
            DivAssignVal => {
                let mut a = acc;
                a /= x;
                Some(Out::Val(a))
            }
            DivAssignRef => {
                let mut a = acc;
                a /= &x;
                Some(Out::Val(a))
            }
            DivAssignMut => {
                let mut a = acc;
                let mut t = x;
                a /= &mut t;
                Some(Out::Val(a))
            }
            InhAdd => Some(Out::Val(<$T>::add(acc, &x))),
            InhSub => Some(Out::Val(<$T>::sub(acc, &x))),
            InhMul => Some(Out::Val(<$T>::mul(acc, &x))),
            NegOp => Some(Out::Val(-acc)),
            InhNeg => Some(Out::Val(<$T>::neg(acc))),
            InhSquare => Some(Out::Val(<$T>::square(&acc))),
            InhInverse => Some(match <$T>::inverse(&acc) {
                Some(v) => Out::Val(v),
                None => Out::NoValue,
            }),
            ZeroizeThenAdd => {
                // zeroize() must leave the additive identity: 0 + x = x
                use zeroize::Zeroize;
                let mut a = acc;
                a.zeroize();
                Some(if a == <$T>::ZERO { Out::Val(a + x) } else { Out::Bad("zeroize() does not leave zero".into()) })
            }
            // even item counts: exact-size iterators; odd: adaptors whose size_hint lower bound is 0
            SumOwned if $k % 2 == 0 => Some(Out::Val(items.clone().into_iter().sum())),
            SumOwned => Some(Out::Val(items.clone().into_iter().filter(|_| true).sum())),
            SumRef if $k % 2 == 0 => Some(Out::Val(items.iter().sum())),
            SumRef => Some(Out::Val(items.iter().take_while(|_| true).sum())),
            ProductOwned if $k % 2 == 0 => Some(Out::Val(items.clone().into_iter().product())),
            ProductOwned => Some(Out::Val({
                let mut v = items.clone();
                v.reverse();
                std::iter::from_fn(move || v.pop()).product()
            })),
            ProductRef if $k % 2 == 0 => Some(Out::Val(items.iter().product())),
            ProductRef => Some(Out::Val(items.iter().filter(|_| true).product())),
            _ => None,
        }
    }};
}

/// arkworks `Field` trait forms (ark configuration only)
macro_rules! ark_forms {
    ($T:ty, $form:expr, $acc:expr, $x:expr, $y:expr, $limbs:expr) => {{
        use ark_ff::Field;
        use ark_std::{One as _, Zero as _};
        use FForm::*;
        let acc: $T = $acc;
        let x: $T = $x;
        let y: $T = $y;
        match $form {
            FDouble => Some(Out::Val(Field::double(&acc))),
            FDoubleInPlace => {
                let mut a = acc;
                Field::double_in_place(&mut a);
                Some(Out::Val(a))
            }
            FNegInPlace => {
                let mut a = acc;
                Field::neg_in_place(&mut a);
                Some(Out::Val(a))
            }
            FSquare => Some(Out::Val(Field::square(&acc))),
            FSquareInPlace => {
                let mut a = acc;
                Field::square_in_place(&mut a);
                Some(Out::Val(a))
            }
            FInverse => Some(match Field::inverse(&acc) {
                Some(v) => Out::Val(v),
                None => Out::NoValue,
            }),
            FInverseInPlace => {
                let mut a = acc;
                let r = Field::inverse_in_place(&mut a).is_some();
                Some(if r { Out::Val(a) } else if a == acc { Out::NoValue } else { Out::Bad("inverse_in_place returned None but modified its operand".into()) })
            }
            FPow => Some(Out::Val(Field::pow(&acc, $limbs))),
            FSumOfProducts => {
                // 1..=5 terms (the callers inside arkworks always pass two)
                let (a, b) = ([acc, y, x, acc, y], [x, acc, x, y, y]);
                Some(Out::Val(match 1 + ($limbs.len() % 5) {
                    1 => <$T as Field>::sum_of_products::<1>(&[a[0]], &[b[0]]),
                    2 => <$T as Field>::sum_of_products::<2>(&[a[0], a[1]], &[b[0], b[1]]),
                    3 => <$T as Field>::sum_of_products::<3>(&[a[0], a[1], a[2]], &[b[0], b[1], b[2]]),
                    4 => <$T as Field>::sum_of_products::<4>(&[a[0], a[1], a[2], a[3]], &[b[0], b[1], b[2], b[3]]),
                    _ => <$T as Field>::sum_of_products::<5>(&a, &b),
                }))
            }
            FFrobenius => {
                let mut a = acc;
                a.frobenius_map_in_place(3);
                Some(Out::Val(a))
            }
            FPowWithTable => {
                // a table of exactly as many squarings as the exponent has bits (plus 0..=2 spare entries), the
                // exponent given with its zero high limbs; one entry too few must give None
                let e = crate::api::int_of_limbs($limbs);
                let bits = e.bits() as usize;
                let spare = $limbs.len() % 3;
                let mut table: Vec<$T> = Vec::with_capacity(bits + spare);
                let mut p = acc;
                for _ in 0..bits + spare {
                    table.push(p);
                    p = p.square();
                }
                let got = <$T as Field>::pow_with_table(&table, $limbs);
                let short = if bits > 0 { <$T as Field>::pow_with_table(&table[..bits - 1], $limbs) } else { None };
                match got {
                    Some(v) if bits == 0 || short.is_none() => Some(Out::Val(v)),
                    Some(_) => Some(Out::Bad("pow_with_table returns a value although a needed power is missing from the table".into())),
                    None => Some(Out::Bad(format!("pow_with_table returns None although the table holds all {bits} powers the exponent needs"))),
                }
            }
            FBasePrime => {
                // the prime field is its own base prime field: all of these are the identity / plain products
                let elems: Vec<$T> = acc.to_base_prime_field_elements().collect();
                let back = <$T as Field>::from_base_prime_field_elems(&elems);
                let ok = elems.len() == 1 && back == Some(acc) && <$T as Field>::from_base_prime_field(acc) == acc && <$T as Field>::from_base_prime_field_elems(&[acc, x]).is_none() && <$T as Field>::extension_degree() == 1;
                Some(if ok { Out::Val(acc * x) } else { Out::Bad("to/from_base_prime_field_elems is not the identity".into()) })
            }
            FBatchInverse => {
                // ark_ff::batch_inversion (Montgomery's trick over this field's mul / inverse), zeros skipped
                let mut v = vec![acc, x, y, <$T>::ZERO, acc * x];
                ark_ff::batch_inversion(&mut v);
                let want = |t: $T| t.inverse().unwrap_or(<$T>::ZERO);
                let ok = v[0] == want(acc) && v[1] == want(x) && v[2] == want(y) && v[3] == <$T>::ZERO && v[4] == want(acc * x);
                Some(if ok { Out::Val(v[1] * x * acc) } else { Out::Bad("batch_inversion disagrees with inverse()".into()) })
            }
            FLegendreSqrt => {
                // legendre / sqrt of a square: consistent, and the root squares back
                let sq = acc.square();
                let l = sq.legendre();
                let ok = if sq.is_zero() { l.is_zero() } else { l.is_qr() } && matches!(sq.sqrt(), Some(r) if r.square() == sq) && {
                    let mut t = sq;
                    t.sqrt_in_place().is_some() && t.square() == sq
                };
                Some(if ok { Out::Val(acc) } else { Out::Bad("legendre / sqrt of a square inconsistent".into()) })
            }
            FZeroOne => {
                let z = acc.is_zero() == (acc == <$T>::ZERO) && acc.is_one() == (acc == <$T>::ONE) && <$T>::zero() == <$T>::ZERO && <$T>::one() == <$T>::ONE && <$T>::default() == <$T>::ZERO;
                Some(if z { Out::Val(acc) } else { Out::Bad("Zero/One/Default inconsistent".into()) })
            }
            _ => None,
        }
    }};
}

/// forms only Fq has (both backends): power, constant-time select / equality
macro_rules! fq_forms {
    ($T:ty, $form:expr, $acc:expr, $x:expr, $limbs:expr, $flag:expr) => {{
        use subtle::{Choice, ConditionallySelectable, ConstantTimeEq};
        use FForm::*;
        let acc: $T = $acc;
        let x: $T = $x;
        let ch = Choice::from($flag as u8);
        match $form {
            Power => Some(Out::Val(acc.power($limbs))),
            CondSelect => Some(Out::Val(<$T>::conditional_select(&acc, &x, ch))),
            CondAssign => {
                let mut a = acc;
                a.conditional_assign(&x, ch);
                Some(Out::Val(a))
            }
            CondSwap => {
                let mut a = acc;
                let mut b = x;
                <$T>::conditional_swap(&mut a, &mut b, ch);
                let want_b = if $flag { acc } else { x };
                Some(if b == want_b && b.to_bytes_le() == want_b.to_bytes_le() { Out::Val(a) } else { Out::Bad("conditional_swap: second operand wrong".into()) })
            }
            CtEq => {
                let e1: bool = acc.ct_eq(&x).into();
                let e2: bool = acc.ct_eq(&acc).into();
                let e3: bool = x.ct_eq(&acc).into();
                let same = acc.to_bytes_le() == x.to_bytes_le();
                Some(if e1 == same && e3 == same && e2 && (acc == x) == same { Out::Val(acc) } else { Out::Bad(format!("ct_eq/== disagree with integer equality (ct_eq={e1}, =={}, integers equal={same})", acc == x)) })
            }
            _ => None,
        }
    }};
}

fn le_bytes(f: &Fld, v: &N) -> Vec<u8> {
    f.to_le(v)
}

macro_rules! runner {
    ($fname:ident, $T:ty, $fid:expr, $nb:expr, ark = $ark:tt, fq = $fq:tt) => {
        pub fn $fname(bk: Bk, init: &N, steps: &[Step], ctx: &mut Ctx, mut trace: Option<&mut Vec<Vec<u8>>>) -> Result<(), Failure> {
            let fid: FId = $fid;
            let f = fid.fld();
            let tag = format!("{}:{}", bk.name(), fid.name());
            let conv = |v: &N| -> $T {
                let mut b = [0u8; $nb];
                b.copy_from_slice(&le_bytes(f, v));
                <$T>::from_bytes_checked(&b).expect("canonical bytes")
            };
            let mut macc: N = init % &f.m;
            let mut acc: $T = conv(&macc);
            for (i, s) in steps.iter().enumerate() {
                let x = eff_x(f, &macc, s);
                let y = &s.y.0 % &f.m;
                let want = model_step(f, &macc, s);
                if let MOut::Excluded = want {
                    // division by zero has no result: the documented behaviour is a panic (inverse().unwrap());
                    // any value handed back instead -- whatever the dividend -- is a wrong result
                    ctx.class(&format!("{tag}:division-by-zero"));
                    let (lx, ly) = (conv(&x), conv(&y));
                    let k = (s.n % 4) as usize;
                    let form = s.form;
                    let acc0 = acc;
                    let r = std::panic::catch_unwind(std::panic::AssertUnwindSafe(|| {
                        let out: Option<Out<$T>> = common_forms!($T, form, acc0, lx, ly, k);
                        matches!(out, Some(Out::Val(_)))
                    }));
                    if let Ok(true) = r {
                        ctx.report(format!("C10|{tag}:{}|division-by-zero-returns-a-value", s.form.name()), format!("step {i} ({:?}) on acc={macc:x}: dividing by zero returned a value instead of panicking", s.form))?;
                        return Ok(());
                    }
                    ctx.excluded();
                    continue;
                }
                ctx.class(&format!("{tag}:{}", s.form.name()));
                ctx.class(&format!("{tag}:operand:{}", classify_fe(&x, &f.m)));
                if bk == Bk::Min {
                    use FForm::*;
                    let inverted = match s.form {
                        InhInverse => Some(&macc),
                        DivVal | DivRef | DivMut | DivAssignVal | DivAssignRef | DivAssignMut => Some(&x),
                        _ => None,
                    };
                    if let Some(v) = inverted {
                        let n = crate::hard_inverse::divsteps(&f.m, v);
                        // thresholds: about 60, 90 and 105 steps above the mean of random operands
                        let (t1, t2, t3) = match f.bits { 377 => (840, 870, 885), 253 => (570, 590, 600), _ => (565, 585, 595) };
                        if n >= t3 {
                            ctx.class(&format!("{tag}:inverse-divsteps>={t3}"));
                        } else if n >= t2 {
                            ctx.class(&format!("{tag}:inverse-divsteps>={t2}"));
                        } else if n >= t1 {
                            ctx.class(&format!("{tag}:inverse-divsteps>={t1}"));
                        }
                    }
                }
                ctx.sub_eval();
                let (lx, ly) = (conv(&x), conv(&y));
                let k = (s.n % 4) as usize;
                let mut out: Option<Out<$T>> = common_forms!($T, s.form, acc, lx, ly, k);
                runner!(@ark $ark, out, $T, s, acc, lx, ly);
                runner!(@fq $fq, out, $T, s, acc, lx);
                let out = match out {
                    Some(o) => o,
                    None => {
                        ctx.excluded();
                        continue;
                    }
                };
                if let Some(t) = trace.as_deref_mut() {
                    t.push(match &out {
                        Out::Val(v) => v.to_bytes_le().to_vec(),
                        Out::NoValue => vec![0xee],
                        Out::Bad(_) => vec![0xbd],
                    });
                }
                let sig = format!("C10|{tag}:{}|wrong-result", s.form.name());
                match (out, want) {
                    (Out::Bad(msg), _) => {
                        ctx.report(format!("C10|{tag}:{}|side-condition", s.form.name()), format!("step {i} ({:?}) on acc={macc:x}, x={x:x}: {msg}", s.form))?;
                        return Ok(());
                    }
                    (Out::NoValue, MOut::NoValue) => {}
                    (Out::NoValue, MOut::Val(w)) => {
                        ctx.report(sig, format!("step {i} ({:?}) on acc={macc:x}: no value returned, expected {w:x}", s.form))?;
                        return Ok(());
                    }
                    (Out::Val(v), MOut::NoValue) => {
                        ctx.report(sig, format!("step {i} ({:?}) on acc={macc:x}: returned {} although no value exists (inverse of zero)", s.form, hex::encode(v.to_bytes_le())))?;
                        return Ok(());
                    }
                    (Out::Val(v), MOut::Val(w)) => {
                        let got = v.to_bytes_le();
                        if got[..] != le_bytes(f, &w)[..] {
                            ctx.report(
                                sig,
                                format!("step {i} ({:?}) on acc={macc:x}, x={x:x}, y={y:x}, limbs={:?}, n={k}, flag={}: got LE bytes {} but the integer result is {w:x}", s.form, s.limbs, s.flag, hex::encode(got)),
                            )?;
                            return Ok(());
                        }
                        // representation independence: the result must be indistinguishable from the
                        // canonically parsed value under the library's own equality, in both directions
                        let canon = conv(&w);
                        if !(v == canon) || !(canon == v) || (v != canon) {
                            ctx.report(
                                format!("C10|{tag}:{}|non-canonical-representation", s.form.name()),
                                format!("step {i} ({:?}) on acc={macc:x}, x={x:x}: the result has the right canonical bytes ({w:x}) but does not compare equal to the same value parsed from bytes (non-canonical internal representation)", s.form),
                            )?;
                            return Ok(());
                        }
                        if w.is_zero() && v.inverse().is_some() {
                            ctx.report(format!("C10|{tag}:{}|zero-has-inverse", s.form.name()), format!("step {i} ({:?}): the result is zero but inverse() returns a value", s.form))?;
                            return Ok(());
                        }
                        let low = gen::mont_low_limb(&w, &f.m);
                        if low <= 1 || low >= u32::MAX - 1 {
                            ctx.class(&format!("{tag}:result-mont-low-limb-boundary"));
                        }
                        acc = v;
                        macc = w;
                    }
                    (_, MOut::Excluded) => unreachable!(),
                }
            }
            Ok(())
        }
    };
    (@ark true, $out:ident, $T:ty, $s:ident, $acc:ident, $lx:ident, $ly:ident) => {
        if $out.is_none() {
            $out = ark_forms!($T, $s.form, $acc, $lx, $ly, &$s.limbs);
        }
    };
    (@ark false, $out:ident, $T:ty, $s:ident, $acc:ident, $lx:ident, $ly:ident) => {};
    (@fq true, $out:ident, $T:ty, $s:ident, $acc:ident, $lx:ident) => {
        if $out.is_none() {
            $out = fq_forms!($T, $s.form, $acc, $lx, &$s.limbs, $s.flag);
        }
    };
    (@fq false, $out:ident, $T:ty, $s:ident, $acc:ident, $lx:ident) => {};
}

runner!(run_ark_fq, decaf377::Fq, FId::Fq, 32, ark = true, fq = true);
runner!(run_ark_fr, decaf377::Fr, FId::Fr, 32, ark = true, fq = false);
runner!(run_ark_fp, decaf377::Fp, FId::Fp, 48, ark = true, fq = false);
runner!(run_min_fq, decaf377_min::Fq, FId::Fq, 32, ark = false, fq = true);
runner!(run_min_fr, decaf377_min::Fr, FId::Fr, 32, ark = false, fq = false);
runner!(run_min_fp, decaf377_min::Fp, FId::Fp, 48, ark = false, fq = false);

pub fn run_chain(bk: Bk, f: FId, init: &N, steps: &[Step], ctx: &mut Ctx) -> Result<(), Failure> {
    run_chain_traced(bk, f, init, steps, ctx, None)
}

/// like `run_chain`; additionally records the canonical bytes the library produced at every step
pub fn run_chain_traced(bk: Bk, f: FId, init: &N, steps: &[Step], ctx: &mut Ctx, trace: Option<&mut Vec<Vec<u8>>>) -> Result<(), Failure> {
    match (bk, f) {
        (Bk::Ark, FId::Fq) => run_ark_fq(bk, init, steps, ctx, trace),
        (Bk::Ark, FId::Fr) => run_ark_fr(bk, init, steps, ctx, trace),
        (Bk::Ark, FId::Fp) => run_ark_fp(bk, init, steps, ctx, trace),
        (Bk::Min, FId::Fq) => run_min_fq(bk, init, steps, ctx, trace),
        (Bk::Min, FId::Fr) => run_min_fr(bk, init, steps, ctx, trace),
        (Bk::Min, FId::Fp) => run_min_fp(bk, init, steps, ctx, trace),
    }
}

fn exp_limbs() -> BoxedStrategy<Vec<u64>> {
    prop_oneof![
        2 => proptest::collection::vec(0u64..16, 0..=4),
        2 => gen::limb_vec(0..=4usize),
        // exponents longer than the field (power / pow take any slice of limbs)
        1 => gen::limb_vec(5..=9usize),
        1 => (4usize..9, 1u64..4).prop_map(|(z, top)| { let mut v = vec![0u64; z]; v.push(top); v }),
        1 => (0u64..4096).prop_map(|e| vec![e]),
        1 => (0u64..8, 0u64..8).prop_map(|(a, b)| vec![a, b]),
    ]
    .boxed()
}

pub fn step(forms: Vec<FForm>, m: N) -> impl Strategy<Value = Step> {
    let n = forms.len();
    let rel = prop_oneof![10 => Just(0u8), 1 => Just(1u8), 1 => Just(2u8), 2 => Just(3u8), 1 => Just(4u8)];
    let rv = prop_oneof![Just(1u64), Just(u64::MAX), Just(1u64 << 63), Just(1u64 << 32), Just(0xffff_ffffu64), (1u64..0x1000_0000).prop_map(|k| k << 32), any::<u64>()];
    let mm1 = &m - 1u32;
    let order_exps = (1u32..4, 0usize..4, prop_oneof![Just(0u32), Just(1u32), Just(2u32)]).prop_map(move |(k, pad, off)| {
        // k * (m - 1) + {0, 1, 2}: Fermat exponents (x^(m-1) = 1 for x != 0, but 0^(m-1) = 0), zero-padded
        let mut l = (&mm1 * k + off).to_u64_digits();
        l.extend(std::iter::repeat(0).take(pad));
        l
    });
    let exps = prop_oneof![8 => exp_limbs(), 1 => order_exps];
    (any::<u16>(), gen::fe(&m), gen::fe(&m), exps, any::<u8>(), any::<bool>(), rel, any::<u16>(), rv)
        .prop_map(move |(i, x, y, limbs, n_items, flag, rel, rk, rv)| Step { form: forms[pick(i, n)], x, y, limbs, n: n_items, flag, rel, rk, rv })
}

/// the operand for which the unary form's result is `t` (None: not a unary form on the accumulator)
fn unary_preimage(f: &Fld, form: FForm, t: &N) -> Option<N> {
    use FForm::*;
    match form {
        NegOp | InhNeg | FNegInPlace => Some(f.neg(t)),
        InhSquare | FSquare | FSquareInPlace => Some(f.sqrt(t).or_else(|| f.sqrt(&f.mul(t, &f.nonresidue))).unwrap_or_default()),
        InhInverse | FInverse | FInverseInPlace => Some(f.inv(t).unwrap_or_default()),
        FDouble | FDoubleInPlace => Some(f.mul(t, &f.inv(&N::from(2u32)).unwrap())),
        _ => None,
    }
}

/// Chains built backwards from a *result*: one step's result has a Montgomery representation with a
/// limb forced to a boundary pattern (`gen::mont_forced`); the operand (binary forms: rel = 5) or the
/// accumulator (unary forms: the initial value, or a preceding step steered onto the preimage) is
/// solved for. Reaches the final conditional subtraction / add-back of the generated field code.
fn targeted_chain(bk: Bk, f: FId) -> BoxedStrategy<Case> {
    let fld = f.fld();
    let m = fld.m.clone();
    let forms = forms_for(bk, f);
    let n = forms.len();
    (any::<u16>(), gen::mont_forced(&m), gen::fe(&m), any::<bool>(), any::<bool>(), step(forms.clone(), m.clone()))
        .prop_map(move |(i, t, init, lead, neg_root, tail)| {
            let form = forms[pick(i, n)];
            let plain = |form: FForm, rel: u8, y: Num| Step { form, x: Num(N::zero()), y, limbs: vec![], n: 2, flag: true, rel, rk: 0, rv: 0 };
            let mut steps = Vec::new();
            let mut init = init;
            match unary_preimage(fld, form, &t.0) {
                Some(mut pre) => {
                    if neg_root && matches!(form, FForm::InhSquare | FForm::FSquare | FForm::FSquareInPlace) {
                        pre = fld.neg(&pre);
                    }
                    if lead {
                        steps.push(plain(FForm::AddVal, 5, Num(pre)));
                    } else {
                        init = Num(pre);
                    }
                    steps.push(plain(form, 0, t));
                }
                None => {
                    if lead {
                        steps.push(Step { rel: 0, ..tail.clone() });
                    }
                    steps.push(plain(form, 5, t));
                }
            }
            if neg_root {
                steps.push(tail);
            }
            Case { bk, f, init, steps }
        })
        .boxed()
}

fn chain(bk: Bk, f: FId, max_len: usize) -> BoxedStrategy<Case> {
    let m = f.fld().m.clone();
    (gen::fe(&m), proptest::collection::vec(step(forms_for(bk, f), m.clone()), 1..=max_len)).prop_map(move |(init, steps)| Case { bk, f, init, steps }).boxed()
}

impl Property for C10 {
    type Case = Case;
    const ID: &'static str = "C10";
    fn rule(&self) -> String {
        "cases: chains of 1..=6 operations on an accumulator, for each of Fq/Fr/Fp on each backend, over every operator and method form (24 \
         operator impls with T/&T/&mut T right-hand sides, inherent add/sub/mul/neg/square/inverse, Sum/Product over owned and borrowed iterators \
         of 0..=3 items; ark: Field::{double, double_in_place, neg_in_place, square, square_in_place, inverse, inverse_in_place, pow, \
         sum_of_products, frobenius, Zero/One}; Fq: power / ark pow with 0..=9 exponent limbs, conditional_select/assign/swap, ct_eq); operands from the \
         structured field generator (limb patterns, 0, 1, p-1, (p+-1)/2, 2^k+-1), operands related to the accumulator, and chains solved backwards \
         from a result whose Montgomery representation has a limb forced to 0 / 1 / 2^32-1 / the modulus' limb +-1 (operand or accumulator \
         preimage computed by the model). Also: Sum / Product over exact and lazy iterators, sum_of_products with 1..=5 terms, pow_with_table, batch_inversion, base-prime-field round trips, Legendre / sqrt consistency, zeroize, Fermat exponents k(p-1)+{0,1,2} with zero padding, operands needing the most division steps found by guided search, and division by zero (must panic, whatever the dividend). Oracle: the integer operation mod p in BigUint, compared through \
         to_bytes_le (must be the canonical 32/48-byte form) after every step. Non-trivial: chain with a non-uniform operand or a form outside \
         {+,-,*,square,inverse}; distinct by digest"
            .into()
    }
    fn assumptions(&self) -> Vec<String> {
        vec![
            "division by zero is a documented panic (inverse().unwrap()): zero divisors are excluded by construction and counted".into(),
            "Fq::SENTINEL is outside the domain ('operations involving this element are undefined'); no generator produces it".into(),
            "conversion model integer -> field element uses from_bytes_checked, itself decided by C11".into(),
        ]
    }
    fn cases(&self, tier: Tier) -> u64 {
        tier.pick(1_200_000, 24_000_000)
    }
    fn strategy(&self, tier: Tier) -> BoxedStrategy<Case> {
        let n = tier.pick(6, 20) as usize;
        prop_oneof![
            3 => chain(Bk::Ark, FId::Fq, n),
            2 => chain(Bk::Ark, FId::Fr, n),
            2 => chain(Bk::Ark, FId::Fp, n),
            3 => chain(Bk::Min, FId::Fq, n),
            2 => chain(Bk::Min, FId::Fr, n),
            2 => chain(Bk::Min, FId::Fp, n),
            1 => targeted_chain(Bk::Ark, FId::Fq),
            1 => targeted_chain(Bk::Ark, FId::Fr),
            1 => targeted_chain(Bk::Ark, FId::Fp),
            2 => targeted_chain(Bk::Min, FId::Fq),
            2 => targeted_chain(Bk::Min, FId::Fr),
            2 => targeted_chain(Bk::Min, FId::Fp),
        ]
        .boxed()
    }
    fn edges(&self, _tier: Tier) -> Vec<Case> {
        let mut v = Vec::new();
        for bk in [Bk::Ark, Bk::Min] {
            for f in [FId::Fq, FId::Fr, FId::Fp] {
                let m = &f.fld().m;
                let pairs: Vec<(N, N)> = vec![
                    (N::zero(), N::zero()),
                    (N::zero(), N::one()),
                    (N::one(), m - 1u32),
                    (m - 1u32, m - 1u32),
                    ((m - 1u32) >> 1, (m + 1u32) >> 1),
                    (N::from(2u32), N::from(3u32)),
                    (m - 2u32, N::from(2u32)),
                    ((N::one() << 64) - 1u32, (N::one() << 32) - 1u32),
                ];
                // operands whose inversion needs the most division steps found by guided search
                for (_, x) in crate::hard_inverse::hard_operands(f.fld().bits) {
                    for form in [FForm::InhInverse, FForm::DivVal, FForm::DivAssignRef, FForm::FInverse] {
                        if !forms_for(bk, f).contains(&form) {
                            continue;
                        }
                        let unary = matches!(form, FForm::InhInverse | FForm::FInverse);
                        let init = if unary { x.clone() } else { N::from(5u32) };
                        v.push(Case { bk, f, init: Num(init), steps: vec![Step { form, x: Num(x.clone()), y: Num(N::one()), limbs: vec![], n: 2, flag: true, rel: 0, rk: 0, rv: 0 }] });
                    }
                }
                // small exponents FIRST: a linear-time `power` must be exposed before any large limb is tried
                let exps: Vec<Vec<u64>> = vec![vec![], vec![0], vec![1], vec![2], vec![3, 0], vec![0, 1], vec![5, 1], vec![2, 0, 0, 1], vec![0, 0, 0, 0], vec![1, 1, 1, 1], vec![0, 0, 0, 0, 1], vec![1, 0, 0, 0, 0, 0, 0, 2], vec![3, 0, 0, 0, 0, 0]];
                let mm1 = m - 1u32;
                let mut exps = exps;
                for e in [mm1.clone(), &mm1 << 64, &mm1 * 2u32, &mm1 * 3u32 << 128, m.clone(), m - 2u32, (&mm1 >> 1), &mm1 << 200] {
                    let mut l = e.to_u64_digits();
                    exps.push(l.clone());
                    l.push(0);
                    exps.push(l.clone());
                    l.extend([0, 0, 0]);
                    exps.push(l);
                }
                for form in forms_for(bk, f) {
                    for (a, b) in &pairs {
                        if matches!(form, FForm::FPow | FForm::Power | FForm::FPowWithTable) {
                            for e in &exps {
                                v.push(Case { bk, f, init: Num(a.clone()), steps: vec![Step { form, x: Num(b.clone()), y: Num(a.clone()), limbs: e.clone(), n: 3, flag: true, rel: 0, rk: 0, rv: 0 }] });
                            }
                        } else {
                            for (rel, rk, rv) in [(1u8, 0u16, 0u64), (2, 0, 0), (3, 0, 1), (3, 1, 1), (3, 2, u64::MAX), (3, 3, 1), (3, 5, 1 << 63), (4, 0, 0), (4, 200, 0)] {
                                v.push(Case { bk, f, init: Num(a.clone()), steps: vec![Step { form, x: Num(b.clone()), y: Num(a.clone()), limbs: vec![], n: 2, flag: true, rel, rk, rv }] });
                            }
                            for (n_items, flag) in [(3u8, true), (2, false), (1, true), (0, false)] {
                                v.push(Case { bk, f, init: Num(a.clone()), steps: vec![Step { form, x: Num(b.clone()), y: Num(a.clone()), limbs: vec![], n: n_items, flag, rel: 0, rk: 0, rv: 0 }] });
                            }
                        }
                    }
                }
            }
        }
        v
    }
    fn check(&self, case: &Case, ctx: &mut Ctx) -> Result<(), Failure> {
        let f = case.f.fld();
        let basic = |fm: FForm| matches!(fm, FForm::AddVal | FForm::SubVal | FForm::MulVal | FForm::InhSquare | FForm::InhInverse);
        if case.steps.iter().any(|s| !basic(s.form) || classify_fe(&(&s.x.0 % &f.m), &f.m) != "uniform") {
            ctx.nontrivial();
        }
        run_chain(case.bk, case.f, &case.init.0, &case.steps, ctx)
    }
    fn shrink_candidates(&self, case: &Case) -> Vec<Case> {
        let mut v = Vec::new();
        for i in 0..case.steps.len() {
            let mut s = case.steps.clone();
            s.remove(i);
            if !s.is_empty() {
                v.push(Case { steps: s, ..case.clone() });
            }
        }
        if case.steps.len() > 1 {
            v.push(Case { steps: vec![case.steps[case.steps.len() - 1].clone()], ..case.clone() });
        }
        for small in [0u64, 1, 2] {
            if case.init.0 != N::from(small) {
                v.push(Case { init: Num(N::from(small)), ..case.clone() });
            }
            for i in 0..case.steps.len() {
                if case.steps[i].x.0 != N::from(small) {
                    let mut s = case.steps.clone();
                    s[i].x = Num(N::from(small));
                    v.push(Case { steps: s, ..case.clone() });
                }
            }
        }
        for i in 0..case.steps.len() {
            if case.steps[i].limbs.len() > 1 {
                for j in 0..case.steps[i].limbs.len() {
                    let mut s = case.steps.clone();
                    s[i].limbs.remove(j);
                    v.push(Case { steps: s, ..case.clone() });
                }
            }
        }
        v
    }
    fn required_classes(&self, _tier: Tier) -> Vec<String> {
        let mut v = Vec::new();
        for bk in [Bk::Ark, Bk::Min] {
            for f in [FId::Fq, FId::Fr, FId::Fp] {
                for form in forms_for(bk, f) {
                    v.push(format!("{}:{}:{}", bk.name(), f.name(), form.name()));
                }
                v.push(format!("{}:{}:result-mont-low-limb-boundary", bk.name(), f.name()));
                if bk == Bk::Min {
                    v.push(format!("min:{}:inverse-divsteps>={}", f.name(), match f.fld().bits { 377 => 885, 253 => 600, _ => 595 }));
                }
            }
        }
        v
    }
}
