//! C15 — circuit shape is input-independent and matches the pinned Groth16 keys
//! (DESIGN §5/C15).

use crate::api::{ark, arkf, Ark, Backend};
use crate::engine::{Ctx, Failure, Property, Tier};
use crate::gen::{self, Num};
use crate::pinned;
use crate::r1cs_lang::{self as rl, native_of, new_cs, GOp, Machine, Mode, Run, AE};
use crate::recipe::{self, Recipe};
use crate::refmodel::{N, Q};
use ark_groth16::{r1cs_to_qap::LibsnarkReduction, Groth16};
use ark_r1cs_std::prelude::*;
use ark_relations::r1cs::{ConstraintSynthesizer, ConstraintSystemRef, ToConstraintField};
use ark_snark::SNARK;
use decaf377::r1cs::ElementVar;
use proptest::prelude::*;
use serde::{Deserialize, Serialize};
use std::hash::{Hash, Hasher};

pub struct C15;

type Fq = ark::Fq;

#[derive(Clone, Debug, Serialize, Deserialize, Default)]
pub struct Pool {
    pub recipes: Vec<Recipe>,
    pub nums: Vec<Num>,
    pub bools: Vec<bool>,
}

#[derive(Clone, Debug, Serialize, Deserialize)]
pub enum Case {
    /// the same program with two value assignments, in setup and in proving mode
    Shape { prog: Vec<GOp>, pool: Pool },
    /// new_input(Element): exactly one instance variable = field encoding = to_field_elements
    PublicInput { src: Recipe, affine: bool },
    /// one of the seven pinned circuits with the pinned keys
    Pinned { circuit: u8, a: Recipe, b: Recipe, x: Num, scalar: Num, seed: u64 },
}

/// digest of (num_instance, num_witness, A, B, C) with rows in canonical order
pub fn shape_digest(cs: &ConstraintSystemRef<Fq>) -> Result<(u64, usize, usize, usize), String> {
    cs.finalize();
    let m = cs.to_matrices().ok_or("no matrices")?;
    let mut h = std::collections::hash_map::DefaultHasher::new();
    (m.num_instance_variables, m.num_witness_variables, m.num_constraints).hash(&mut h);
    for (tag, mat) in [(b'A', &m.a), (b'B', &m.b), (b'C', &m.c)] {
        tag.hash(&mut h);
        mat.len().hash(&mut h);
        for row in mat.iter() {
            let mut r: Vec<(usize, [u8; 32])> = row.iter().map(|(c, i)| (*i, c.to_bytes())).collect();
            r.sort();
            r.hash(&mut h);
        }
    }
    Ok((h.finish(), m.num_instance_variables, m.num_witness_variables, m.num_constraints))
}

/// replace every *value* (not structure) of a program by values from the pool
pub fn substitute(prog: &[GOp], pool: &Pool) -> Vec<GOp> {
    let (mut ri, mut ni, mut bi) = (0usize, 0usize, 0usize);
    let mut next_r = |old: &Recipe| -> Recipe {
        if pool.recipes.is_empty() {
            return old.clone();
        }
        ri += 1;
        pool.recipes[(ri - 1) % pool.recipes.len()].clone()
    };
    let mut next_n = |old: &Num| -> Num {
        if pool.nums.is_empty() {
            return old.clone();
        }
        ni += 1;
        pool.nums[(ni - 1) % pool.nums.len()].clone()
    };
    let mut next_b = |old: bool| -> bool {
        if pool.bools.is_empty() {
            return old;
        }
        bi += 1;
        pool.bools[(bi - 1) % pool.bools.len()]
    };
    prog.iter()
        .map(|op| match op {
            // constants are part of the circuit's definition and stay fixed
            GOp::AllocElem { dst, src, mode, via } if *mode != Mode::Constant => GOp::AllocElem { dst: *dst, src: next_r(src), mode: *mode, via: *via },
            GOp::AllocFq { dst, val, mode } if *mode != Mode::Constant => GOp::AllocFq { dst: *dst, val: next_n(val), mode: *mode },
            GOp::AllocLazy { dst, val, mode } => GOp::AllocLazy { dst: *dst, val: next_n(val), mode: *mode },
            GOp::ScalarMul { dst, a, k, nbits, bits_const } if !*bits_const => GOp::ScalarMul { dst: *dst, a: *a, k: next_n(k), nbits: *nbits, bits_const: false },
            GOp::CondEnforceEqual { a, b, cond } => GOp::CondEnforceEqual { a: *a, b: *b, cond: next_b(*cond) },
            GOp::CondEnforceNotEqual { a, b, cond } => GOp::CondEnforceNotEqual { a: *a, b: *b, cond: next_b(*cond) },
            GOp::CondSelect { dst, cond, a, b } => GOp::CondSelect { dst: *dst, cond: next_b(*cond), a: *a, b: *b },
            other => other.clone(),
        })
        .collect()
}

/// `Ok(None)`: the run could not be completed because the prover had no consistent witness
/// (a step whose native counterpart fails came earlier, e.g. an invalid encoding was decoded,
/// and a later gadget could not compute its witness values from the garbage): such value
/// assignments are outside "every input value" and are excluded, not compared.
fn synth_shape(prog: &[GOp], setup: bool, ctx: &mut Ctx) -> Result<Option<(u64, usize, usize, usize)>, Failure> {
    let mut m = Machine::new(Run::Shape, setup);
    for op in prog {
        match m.step(op, ctx) {
            Ok(_) => {}
            Err(f) => {
                if (m.expect_unsat.is_some() || m.consuming_poison()) && !setup {
                    return Ok(None);
                }
                return Err(f);
            }
        }
    }
    shape_digest(&m.cs).map(Some).map_err(|e| Failure { signature: "C15|shape|matrices".into(), message: e })
}

fn shape_case(prog: &[GOp], pool: &Pool, ctx: &mut Ctx) -> Result<(), Failure> {
    let prog2 = substitute(prog, pool);
    let runs = [("values-1/prove", prog, false), ("values-1/setup", prog, true), ("values-2/prove", &prog2[..], false), ("values-2/setup", &prog2[..], true)];
    let mut first: Option<(&str, (u64, usize, usize, usize))> = None;
    for (name, p, setup) in runs {
        ctx.sub_eval();
        let d = match synth_shape(p, setup, ctx)? {
            Some(d) => d,
            None => {
                ctx.excluded();
                ctx.class("shape:prove-run-without-consistent-witness(excluded)");
                continue;
            }
        };
        match &first {
            None => first = Some((name, d)),
            Some((n0, d0)) => {
                if *d0 != d {
                    // name the gadgets present so that the signature identifies the culprit class
                    let gadgets: std::collections::BTreeSet<String> = prog.iter().map(|o| o.name().split(':').next().unwrap_or("").to_string()).collect();
                    ctx.report(
                        format!("C15|shape|{}", if d0.1 != d.1 { "instance-variables" } else if name.ends_with("setup") != n0.ends_with("setup") && name[..8] == n0[..8] { "setup-vs-prove" } else { "value-dependent" }),
                        format!("constraint system differs between {n0} (instance {}, witness {}, constraints {}, digest {:016x}) and {name} (instance {}, witness {}, constraints {}, digest {:016x}); gadgets in the program: {gadgets:?}", d0.1, d0.2, d0.3, d0.0, d.1, d.2, d.3, d.0),
                    )?;
                    return Ok(());
                }
            }
        }
    }
    for op in prog {
        ctx.class(&format!("shape-gadget:{}", op.name()));
    }
    Ok(())
}

fn public_input_case(src: &Recipe, affine: bool, ctx: &mut Ctx) -> Result<(), Failure> {
    use ark_ec::CurveGroup;
    let e = native_of(src);
    let enc = e.vartime_compress_to_field();
    let err = |e: ark_relations::r1cs::SynthesisError| Failure { signature: "C15|public-input|synthesis".into(), message: format!("{e:?}") };
    ctx.class(if affine { "public-input:AffinePoint" } else { "public-input:Element" });
    for setup in [false, true] {
        let cs = new_cs(setup);
        let before = cs.num_instance_variables();
        let wbefore = cs.num_witness_variables();
        let var = if affine {
            <ElementVar as AllocVar<rl::AA, Fq>>::new_input(cs.clone(), || Ok(e.into_affine())).map_err(err)?
        } else {
            <ElementVar as AllocVar<AE, Fq>>::new_input(cs.clone(), || Ok(e)).map_err(err)?
        };
        ctx.sub_eval();
        let added = cs.num_instance_variables() - before;
        if added != 1 {
            return ctx.report("C15|public-input|instance-count", format!("new_input(Element) added {added} instance variables ({} mode)", if setup { "setup" } else { "prove" }));
        }
        if !setup {
            let assigned = cs.borrow().unwrap().instance_assignment[before];
            if assigned != enc {
                return ctx.report("C15|public-input|assignment", format!("instance variable is {} but vartime_compress_to_field is {}", hex::encode(assigned.to_bytes()), hex::encode(enc.to_bytes())));
            }
        }
        // using the variable must not add further instance variables
        let _ = var.cs();
        let _ = var.compress_to_field().map_err(err)?;
        if cs.num_instance_variables() - before != 1 {
            return ctx.report("C15|public-input|instance-count", "forcing the public element added instance variables".to_string());
        }
        let _ = wbefore;
    }
    match e.to_field_elements() {
        Some(v) if v.len() == 1 && v[0] == enc => Ok(()),
        other => ctx.report("C15|public-input|to_field_elements", format!("to_field_elements = {:?}, expected exactly the field encoding", other.map(|v| v.len()))),
    }
}

fn pinned_case(i: usize, a: &Recipe, b: &Recipe, x: &N, scalar: &N, seed: u64, ctx: &mut Ctx) -> Result<(), Failure> {
    use rand_core::SeedableRng;
    let name = pinned::NAMES[i];
    let (ea, eb) = (native_of(a), native_of(b));
    let fx = arkf::fq(&(x % &Q.m));
    let mut sb = scalar.to_bytes_le();
    sb.resize(32, 0);
    let mut sc = [0u8; 32];
    sc.copy_from_slice(&sb[..32]);
    let (circuit, public) = pinned::honest(i, ea, eb, fx, sc);
    let (pk, vk) = pinned::keys(i);
    ctx.class(&format!("pinned:{name}"));
    // sizes and shape against the key
    let cs = new_cs(true);
    circuit.clone().generate_constraints(cs.clone()).map_err(|e| Failure { signature: format!("C15|pinned:{name}|synthesis"), message: format!("{e:?}") })?;
    let (digest, ninst, nwit, ncons) = shape_digest(&cs).map_err(|e| Failure { signature: "C15|pinned|matrices".into(), message: e })?;
    ctx.sub_eval();
    if vk.gamma_abc_g1.len() != ninst || pk.a_query.len() != ninst + nwit {
        return ctx.report(format!("C15|pinned:{name}|key-size"), format!("{name}: synthesised {ninst} instance / {nwit} witness variables, pinned vk has {} instance slots and pk.a_query {} entries", vk.gamma_abc_g1.len(), pk.a_query.len()));
    }
    if public.len() + 1 != ninst {
        return ctx.report(format!("C15|pinned:{name}|public-input-arity"), format!("{name}: {} public-input field elements but {} instance variables", public.len(), ninst));
    }
    {
        let mut seen = SHAPES.lock().unwrap();
        match seen.get(&i) {
            None => {
                seen.insert(i, digest);
            }
            Some(d0) if *d0 != digest => {
                return ctx.report(format!("C15|pinned:{name}|value-dependent-shape"), format!("{name}: setup-mode matrices depend on the witness (digest {digest:016x} vs {d0:016x}, {ncons} constraints)"));
            }
            _ => {}
        }
    }
    // prove with the pinned proving key, verify with the pinned verifying key
    let mut rng = rand_chacha::ChaCha20Rng::seed_from_u64(seed);
    let proof = match Groth16::<ark::Fq2Engine, LibsnarkReduction>::prove(pk, circuit, &mut rng) {
        Ok(p) => p,
        Err(e) => return ctx.report(format!("C15|pinned:{name}|prove"), format!("{name}: proving with the pinned key failed: {e:?}")),
    };
    let pvk = Groth16::<ark::Fq2Engine, LibsnarkReduction>::process_vk(vk).map_err(|e| Failure { signature: "C15|pinned|process_vk".into(), message: format!("{e:?}") })?;
    ctx.sub_eval();
    match Groth16::<ark::Fq2Engine, LibsnarkReduction>::verify_with_processed_vk(&pvk, &public, &proof) {
        Ok(true) => {}
        other => return ctx.report(format!("C15|pinned:{name}|honest-proof-rejected"), format!("{name}: proof for an honest witness does not verify under the pinned key: {other:?}")),
    }
    // any other public input is rejected
    for pos in 0..public.len() {
        for (k, alt) in [public[pos] + Fq::ONE, eb.vartime_compress_to_field() + Fq::from(2u64), Fq::from(seed)].into_iter().enumerate() {
            if alt == public[pos] {
                continue;
            }
            let mut wrong = public.clone();
            wrong[pos] = alt;
            ctx.sub_eval();
            match Groth16::<ark::Fq2Engine, LibsnarkReduction>::verify_with_processed_vk(&pvk, &wrong, &proof) {
                Ok(false) | Err(_) => {}
                Ok(true) => return ctx.report(format!("C15|pinned:{name}|wrong-public-input-accepted"), format!("{name}: proof verifies with public input {pos} replaced (variant {k})")),
            }
        }
    }
    Ok(())
}

static SHAPES: once_cell::sync::Lazy<std::sync::Mutex<std::collections::HashMap<usize, u64>>> = once_cell::sync::Lazy::new(|| std::sync::Mutex::new(std::collections::HashMap::new()));

fn pool() -> BoxedStrategy<Pool> {
    (proptest::collection::vec(recipe::recipe_small(), 1..=4), proptest::collection::vec(rl::fq_input(), 1..=4), proptest::collection::vec(any::<bool>(), 1..=3))
        .prop_map(|(recipes, nums, bools)| Pool { recipes, nums, bools })
        .boxed()
}

impl Property for C15 {
    type Case = Case;
    const ID: &'static str = "C15";
    fn rule(&self) -> String {
        "cases: (a) shape: a gadget program (prologue + 1..=6 gadget applications, all gadgets of C13) synthesised with two different value \
         assignments (second one drawn from a generated pool: other recipes incl. identity / both representatives, other field values incl. invalid \
         encodings, other scalars and condition bits; constants held fixed) in SynthesisMode::Setup and Prove{construct_matrices}, optimisation goal \
         and finalize() as ark-groth16 does: the digest of (instance count, witness count, A, B, C with canonically ordered rows) must be the same \
         in all four runs; (b) new_input(Element / AffinePoint) adds exactly one instance variable whose assignment is vartime_compress_to_field(E) = \
         to_field_elements(E); (c) the seven circuits of the repository's own tests/groth16_gadgets.rs (included verbatim) with honest witnesses \
         from recipes: key sizes match, setup-mode digest independent of the witness, Groth16::prove with the pinned proving key verifies under the \
         pinned verifying key and is rejected for every altered public input. Non-trivial: input that is not the key-generation input; distinct by digest"
            .into()
    }
    fn assumptions(&self) -> Vec<String> {
        vec![
            "witnesses are honest and valid (an unsatisfied system has no proof); invalid ones belong to C13/C14".into(),
            "constants embedded in a circuit are part of its definition and held fixed within one shape comparison".into(),
            "ark-groth16 / ark-relations trusted; pinned keys are the files under tests/test_vectors of the tree under test".into(),
        ]
    }
    fn cases(&self, tier: Tier) -> u64 {
        tier.pick(1_600, 80_000)
    }
    fn max_shrink_iters(&self) -> u32 {
        128
    }
    fn prepare(&self, _tier: Tier) -> Result<(), String> {
        let r = std::panic::catch_unwind(pinned::load_all_keys);
        r.map_err(|_| "loading the pinned Groth16 keys failed".to_string())?;
        // reference shapes from the key-generation inputs of the repository
        let mut seen = SHAPES.lock().unwrap();
        for i in 0..7 {
            let (c, _) = pinned::honest(i, AE::default(), AE::default(), Fq::ZERO, [0u8; 32]);
            let cs = new_cs(true);
            c.generate_constraints(cs.clone()).map_err(|e| format!("{e:?}"))?;
            seen.insert(i, shape_digest(&cs)?.0);
        }
        Ok(())
    }
    fn strategy(&self, _tier: Tier) -> BoxedStrategy<Case> {
        prop_oneof![
            10 => (rl::program(6), pool()).prop_map(|(prog, pool)| Case::Shape { prog, pool }),
            2 => (recipe::recipe(), any::<bool>()).prop_map(|(src, affine)| Case::PublicInput { src, affine }),
            2 => (0u8..7, recipe::recipe_small(), recipe::recipe_small(), gen::fq_special(), gen::limb_vec(4usize), any::<u64>())
                .prop_map(|(circuit, a, b, x, l, seed)| Case::Pinned { circuit, a, b, x, scalar: Num(crate::api::int_of_limbs(&l)), seed }),
        ]
        .boxed()
    }
    fn edges(&self, _tier: Tier) -> Vec<Case> {
        use Recipe::*;
        let g = || Box::new(Generator);
        let specials = vec![Identity, Torsion(Box::new(Identity)), Generator, MinusOneTimes(g()), Torsion(g()), Sub(g(), g()), MulGen(2u64.into())];
        let mut v = Vec::new();
        for s in &specials {
            v.push(Case::PublicInput { src: s.clone(), affine: false });
            v.push(Case::PublicInput { src: s.clone(), affine: true });
            for c in 0..7u8 {
                v.push(Case::Pinned { circuit: c, a: s.clone(), b: MulGen(3u64.into()), x: Num(N::from(0u32)), scalar: Num(N::from(0u32)), seed: 1 });
            }
            // every gadget once, identity-like values against generic ones
            let pool = Pool { recipes: vec![s.clone(), Elligator(9u64.into())], nums: vec![Num(N::from(0u32)), Num(&Q.m - 1u32), Num(N::from(8u32))], bools: vec![false, true] };
            for extra in [
                vec![GOp::Compress { dst: 2, e: 0 }],
                vec![GOp::Decompress { dst: 2, f: 0 }],
                vec![GOp::Elligator { dst: 2, f: 0 }],
                vec![GOp::Isqrt { dst: 2, f: 0 }],
                vec![GOp::Bin { dst: 2, form: rl::BinForm::AddVV, a: 0, b: 1 }, GOp::Compress { dst: 2, e: 2 }],
                vec![GOp::ScalarMul { dst: 2, a: 0, k: Num(N::from(5u32)), nbits: 8, bits_const: false }],
                vec![GOp::EnforceEqual { a: 0, b: 1 }],
                vec![GOp::CondSelect { dst: 2, cond: true, a: 0, b: 1 }, GOp::IsEq { a: 2, b: 0 }],
                vec![GOp::Negate { dst: 2, a: 0 }, GOp::Double { dst: 3, a: 2 }, GOp::ToBits { a: 3 }],
            ] {
                let mut prog = vec![
                    GOp::AllocElem { dst: 0, src: MulGen(11u64.into()), mode: Mode::Witness, via: rl::Via::Element },
                    GOp::AllocElem { dst: 1, src: Elligator(5u64.into()), mode: Mode::Input, via: rl::Via::Element },
                    GOp::AllocFq { dst: 0, val: Num(N::from(2u32)), mode: Mode::Witness },
                ];
                prog.extend(extra);
                v.push(Case::Shape { prog, pool: pool.clone() });
            }
        }
        for c in 0..7u8 {
            v.push(Case::Pinned { circuit: c, a: Elligator(77u64.into()), b: MulGen(Num(&crate::refmodel::R.m - 1u32)), x: Num(&Q.m - 1u32), scalar: Num((N::from(1u32) << 256) - 1u32), seed: 2 });
            v.push(Case::Pinned { circuit: c, a: Generator, b: Generator, x: Num(N::from(1u32)), scalar: Num(crate::refmodel::R.m.clone()), seed: 3 });
        }
        v
    }
    fn check(&self, case: &Case, ctx: &mut Ctx) -> Result<(), Failure> {
        ctx.nontrivial();
        match case {
            Case::Shape { prog, pool } => {
                ctx.class("shape");
                shape_case(prog, pool, ctx)
            }
            Case::PublicInput { src, affine } => public_input_case(src, *affine, ctx),
            Case::Pinned { circuit, a, b, x, scalar, seed } => pinned_case(*circuit as usize % 7, a, b, &x.0, &scalar.0, *seed, ctx),
        }
    }
    fn shrink_candidates(&self, case: &Case) -> Vec<Case> {
        match case {
            Case::Shape { prog, pool } => {
                let mut v: Vec<Case> = rl::shrink_program(prog).into_iter().map(|p| Case::Shape { prog: p, pool: pool.clone() }).collect();
                for i in 0..pool.recipes.len() {
                    for s in pool.recipes[i].shrinks() {
                        let mut p = pool.clone();
                        p.recipes[i] = s;
                        v.push(Case::Shape { prog: prog.clone(), pool: p });
                    }
                }
                v
            }
            Case::PublicInput { src, affine } => src.shrinks().into_iter().map(|s| Case::PublicInput { src: s, affine: *affine }).collect(),
            Case::Pinned { circuit, a, b, x, scalar, seed } => {
                let mut v: Vec<Case> = a.shrinks().into_iter().map(|s| Case::Pinned { circuit: *circuit, a: s, b: b.clone(), x: x.clone(), scalar: scalar.clone(), seed: *seed }).collect();
                v.extend(b.shrinks().into_iter().map(|s| Case::Pinned { circuit: *circuit, a: a.clone(), b: s, x: x.clone(), scalar: scalar.clone(), seed: *seed }));
                v
            }
        }
    }
    fn required_classes(&self, _tier: Tier) -> Vec<String> {
        let mut v: Vec<String> = pinned::NAMES.iter().map(|n| format!("pinned:{n}")).collect();
        v.push("shape".into());
        v.push("public-input:Element".into());
        v.push("public-input:AffinePoint".into());
        for g in ["Compress", "Decompress", "Elligator", "Isqrt", "CondSelect", "EnforceEqual", "ScalarMul:witness-bits"] {
            v.push(format!("shape-gadget:{g}"));
        }
        v
    }
}
