//! C09 — square-root-of-ratio meets its four-case contract on every input; the generic
//! field square root and Legendre symbol agree with Euler's criterion (DESIGN §5/C09).

use crate::api::{arkf, minf};
use crate::engine::{Ctx, Failure, Property, Tier};
use crate::gen::{self, Num};
use crate::props::c10::FId;
use crate::props::common::Bk;
use crate::refmodel::{CURVE, N, Q};
use num_traits::{One, Zero};
use once_cell::sync::Lazy;
use proptest::prelude::*;
use serde::{Deserialize, Serialize};

pub struct C09;

/// the six table windows of the table-driven algorithm: (shift, width)
pub const WINDOWS: [(u32, u32); 6] = [(0, 7), (7, 8), (15, 8), (23, 8), (31, 8), (39, 8)];
const S: u32 = 47;

/// generator of the 2-Sylow subgroup (order 2^47): zeta^trace
static G2SYLOW: Lazy<N> = Lazy::new(|| Q.pow(&CURVE.zeta, &Q.trace));

#[derive(Clone, Debug, Serialize, Deserialize)]
pub enum Case {
    /// num/den = w^(2^47) * g^e (odd-order part times a chosen 2-primary component),
    /// num and den scaled by a common factor
    Ratio { bk: Bk, w: Num, e: u64, scale: Num, family: String },
    /// arbitrary pair, zero rows included
    Raw { bk: Bk, num: Num, den: Num },
    /// generic Field::sqrt / legendre (ark): mode 0: x, 1: x^2, 2: x^2 * nonresidue
    Sqrt { f: FId, x: Num, mode: u8 },
}

fn oracle_ratio(who: &str, num: &N, den: &N, flag: bool, y: &N, ctx: &mut Ctx) -> Result<(), Failure> {
    let f = &*Q;
    ctx.sub_eval();
    if num.is_zero() {
        ctx.class(&format!("{who}:row:num=0"));
        if !(flag && y.is_zero()) {
            ctx.report(format!("C09|{who}|num-zero"), format!("sqrt_ratio(0, {den:x}) = ({flag}, {y:x}), expected (true, 0)"))?;
        }
        return Ok(());
    }
    if den.is_zero() {
        ctx.class(&format!("{who}:row:den=0"));
        if flag || !y.is_zero() {
            ctx.report(format!("C09|{who}|den-zero"), format!("sqrt_ratio({num:x}, 0) = ({flag}, {y:x}), expected (false, 0)"))?;
        }
        return Ok(());
    }
    let ratio = f.div(num, den);
    let sq = f.is_square(&ratio);
    ctx.class(&format!("{who}:row:{}", if sq { "square" } else { "nonsquare" }));
    if flag != sq {
        ctx.report(format!("C09|{who}|flag"), format!("sqrt_ratio({num:x}, {den:x}): flag {flag} but num/den is {}", if sq { "a square" } else { "not a square" }))?;
        return Ok(());
    }
    let lhs = f.mul(&f.sq(y), den);
    let rhs = if sq { num.clone() } else { f.mul(&CURVE.zeta, num) };
    if lhs != rhs {
        ctx.report(format!("C09|{who}|root"), format!("sqrt_ratio({num:x}, {den:x}) = ({flag}, {y:x}) but y^2*den != {}", if sq { "num" } else { "zeta*num" }))?;
    }
    Ok(())
}

fn call(bk: Bk, num: &N, den: &N) -> (bool, N) {
    match bk {
        Bk::Ark => {
            let (b, y) = decaf377::Fq::sqrt_ratio_zeta(&arkf::fq(num), &arkf::fq(den));
            (b, arkf::fq_int(&y))
        }
        Bk::Min => {
            let (b, y) = decaf377_min::Fq::non_arkworks_sqrt_ratio_zeta(&minf::fq(num), &minf::fq(den));
            (b, minf::fq_int(&y))
        }
    }
}

fn who(bk: Bk) -> &'static str {
    match bk {
        Bk::Ark => "ark:sqrt_ratio_zeta",
        Bk::Min => "min:non_arkworks_sqrt_ratio_zeta",
    }
}

macro_rules! sqrt_check {
    ($T:ty, $conv:path, $back:path, $f:expr, $x:expr, $ctx:expr) => {{
        use ark_ff::{Field, LegendreSymbol};
        let f = $f;
        let x: &N = $x;
        let name = format!("ark:{}", f.name);
        let lx: $T = $conv(x);
        let leg = f.legendre(x);
        $ctx.sub_eval();
        $ctx.class(&format!("{name}:legendre={leg}"));
        let got_leg = match lx.legendre() {
            LegendreSymbol::Zero => 0,
            LegendreSymbol::QuadraticResidue => 1,
            LegendreSymbol::QuadraticNonResidue => -1,
        };
        if got_leg != leg {
            $ctx.report(format!("C09|{name}::legendre"), format!("legendre({x:x}) = {got_leg}, Euler's criterion gives {leg}"))?;
        }
        match lx.sqrt() {
            Some(y) => {
                let y = $back(&y);
                if leg == -1 {
                    $ctx.report(format!("C09|{name}::sqrt|some-for-nonsquare"), format!("sqrt({x:x}) = Some({y:x}) for a non-square"))?;
                } else if f.sq(&y) != *x {
                    $ctx.report(format!("C09|{name}::sqrt|wrong-root"), format!("sqrt({x:x}) = {y:x} whose square is {:x}", f.sq(&y)))?;
                }
            }
            None => {
                if leg != -1 {
                    $ctx.report(format!("C09|{name}::sqrt|none-for-square"), format!("sqrt({x:x}) = None although Euler's criterion says square"))?;
                }
            }
        }
        // sqrt_in_place agrees with sqrt
        let mut z = lx;
        let r = z.sqrt_in_place().is_some();
        if r != (leg != -1) {
            $ctx.report(format!("C09|{name}::sqrt_in_place"), format!("sqrt_in_place({x:x}) reports {r}"))?;
        }
        Ok::<(), Failure>(())
    }};
}

fn structured_e() -> BoxedStrategy<(u64, String)> {
    let mask = (1u64 << S) - 1;
    prop_oneof![
        // every digit of every window, the other windows zero / all-ones / random, on e and on -e
        8 => (0usize..6, any::<u16>(), 0u8..3, any::<u64>(), any::<bool>()).prop_map(move |(w, d, fill, rnd, negate)| {
            let (shift, width) = WINDOWS[w];
            let digit = ((d as u64) * (1u64 << width)) >> 16;
            let wmask = ((1u64 << width) - 1) << shift;
            let base = match fill { 0 => 0, 1 => mask, _ => rnd & mask };
            let mut e = (base & !wmask) | (digit << shift);
            if negate { e = e.wrapping_neg() & mask; }
            (e, format!("window{w}-digit"))
        }),
        // 8-aligned windows (the g-table indices): byte j = d
        3 => (0u32..6, any::<u8>(), any::<u64>(), any::<bool>()).prop_map(move |(j, d, rnd, negate)| {
            let shift = 8 * j;
            let bm = 0xffu64 << shift;
            let mut e = ((rnd & mask) & !bm) | ((d as u64) << shift);
            e &= mask;
            if negate { e = e.wrapping_neg() & mask; }
            (e, "aligned-byte".to_string())
        }),
        // single bits, 2^47 - 1, alternating
        2 => (0u32..S).prop_map(|k| (1u64 << k, "single-bit".to_string())),
        1 => Just((mask, "all-ones".to_string())),
        1 => prop_oneof![Just(0x5555_5555_5555u64 & mask), Just(0x2aaa_aaaa_aaaau64 & mask), Just(0u64), Just(1u64), Just(2u64)].prop_map(|e| (e, "pattern".to_string())),
        // pure roots of unity of exact order 2^k: e = 2^(47-k) * odd
        3 => (0u32..=S, any::<u64>()).prop_map(move |(k, o)| {
            if k == 0 { return (0u64, "order-2^0".to_string()); }
            let odd = (o | 1) & ((1u64 << k) - 1);
            ((odd << (S - k)) & mask, format!("order-2^{k}"))
        }),
        3 => any::<u64>().prop_map(move |e| (e & mask, "uniform-e".to_string())),
    ]
    .boxed()
}

impl Property for C09 {
    type Case = Case;
    const ID: &'static str = "C09";
    fn rule(&self) -> String {
        "cases: pairs (num, den) with num/den = u * g^e, u of odd order, g a generator of the order-2^47 subgroup and e chosen structurally: every \
         value of every table window (shifts 0/7/15/23/31/39 and the 8-aligned g-table bytes) with the other windows zero / all-ones / random, \
         applied to e and -e; single bits; all-ones; pure roots of unity of every order 2^k (k=0..47); num and den scaled by a common factor; plus \
         uniform pairs and the zero rows; ark: Fq::sqrt_ratio_zeta, min: Fq::non_arkworks_sqrt_ratio_zeta; and Field::sqrt / sqrt_in_place / legendre \
         of Fq, Fr, Fp (ark) on field elements, constructed squares and constructed non-squares. Oracle (BigUint): the four-case contract with \
         Euler's criterion; sqrt is Some(y), y^2 = x iff x is a square. Non-trivial: pair with num, den != 0 from a structured class, or a sqrt \
         input that is a constructed square/non-square; distinct by digest. Evidence: window x digit coverage matrix, orders 2^k seen"
            .into()
    }
    fn assumptions(&self) -> Vec<String> {
        vec!["the digits the table-driven algorithm looks up are those of a discrete logarithm related to e; covering all digit values of all windows of e and of -e covers all table rows (no hook needed)".into()]
    }
    fn cases(&self, tier: Tier) -> u64 {
        tier.pick(240_000, 8_000_000)
    }
    fn strategy(&self, _tier: Tier) -> BoxedStrategy<Case> {
        let bk = || prop_oneof![3 => Just(Bk::Ark), 1 => Just(Bk::Min)];
        prop_oneof![
            10 => (bk(), gen::fq(), structured_e(), gen::fq()).prop_map(|(bk, w, (e, family), scale)| Case::Ratio { bk, w, e, scale, family }),
            2 => (bk(), gen::fq_special(), gen::fq_special()).prop_map(|(bk, num, den)| Case::Raw { bk, num, den }),
            // a structured ratio (sparse canonical / sparse Montgomery limbs, near the modulus) presented with a generic common factor
            3 => (bk(), gen::fq(), gen::fq(), any::<bool>()).prop_map(|(bk, x, scale, invert)| {
                let f = &*Q;
                let sc = if scale.0.is_zero() { N::one() } else { scale.0.clone() };
                let (num, den) = if invert { (sc.clone(), f.mul(&x.0, &sc)) } else { (f.mul(&x.0, &sc), sc) };
                Case::Raw { bk, num: Num(num), den: Num(den) }
            }),
            1 => (bk(), gen::fq(), 0u8..3).prop_map(|(bk, v, z)| match z {
                0 => Case::Raw { bk, num: Num(N::zero()), den: v },
                1 => Case::Raw { bk, num: v, den: Num(N::zero()) },
                _ => Case::Raw { bk, num: Num(N::zero()), den: Num(N::zero()) },
            }),
            2 => (gen::fq(), 0u8..3).prop_map(|(x, mode)| Case::Sqrt { f: FId::Fq, x, mode }),
            2 => (gen::fr(), 0u8..3).prop_map(|(x, mode)| Case::Sqrt { f: FId::Fr, x, mode }),
            2 => (gen::fe(&crate::refmodel::P.m), 0u8..3).prop_map(|(x, mode)| Case::Sqrt { f: FId::Fp, x, mode }),
        ]
        .boxed()
    }
    fn edges(&self, _tier: Tier) -> Vec<Case> {
        let mut v = Vec::new();
        let one = Num(N::one());
        let mask = (1u64 << S) - 1;
        for bk in [Bk::Ark, Bk::Min] {
            // every digit of every window on e and -e with the other windows zero
            for (w, (shift, width)) in WINDOWS.iter().enumerate() {
                for d in 0..(1u64 << width) {
                    let e = d << shift;
                    v.push(Case::Ratio { bk, w: one.clone(), e, scale: one.clone(), family: format!("window{w}-digit") });
                    v.push(Case::Ratio { bk, w: Num(N::from(3u32)), e: e.wrapping_neg() & mask, scale: Num(N::from(7u32)), family: format!("window{w}-digit") });
                }
            }
            for k in 0..=S {
                let e = if k == 0 { 0 } else { 1u64 << (S - k) };
                v.push(Case::Ratio { bk, w: one.clone(), e, scale: one.clone(), family: format!("order-2^{k}") });
            }
            for k in 0..64u32 {
                // ratio zeta^k
                v.push(Case::Raw { bk, num: Num(Q.pow(&CURVE.zeta, &N::from(k))), den: one.clone() });
                v.push(Case::Raw { bk, num: one.clone(), den: Num(Q.pow(&CURVE.zeta, &N::from(k))) });
            }
            let z = Num(N::zero());
            for (a, b) in [(z.clone(), z.clone()), (z.clone(), one.clone()), (one.clone(), z.clone()), (one.clone(), one.clone()), (Num(&Q.m - 1u32), one.clone()), (one.clone(), Num(&Q.m - 1u32))] {
                v.push(Case::Raw { bk, num: a, den: b });
            }
        }
        for f in [FId::Fq, FId::Fr, FId::Fp] {
            for x in [0u32, 1, 2, 3, 4, 5, 22, 15] {
                for mode in 0..3 {
                    v.push(Case::Sqrt { f, x: Num(N::from(x)), mode });
                }
            }
            v.push(Case::Sqrt { f, x: Num(&f.fld().m - 1u32), mode: 0 });
        }
        v
    }
    fn check(&self, case: &Case, ctx: &mut Ctx) -> Result<(), Failure> {
        let f = &*Q;
        match case {
            Case::Ratio { bk, w, e, scale, family } => {
                let w = &w.0 % &f.m;
                let scale = &scale.0 % &f.m;
                if w.is_zero() || scale.is_zero() {
                    ctx.excluded();
                    return Ok(());
                }
                let e = e & ((1u64 << S) - 1);
                let u = f.pow(&w, &(N::one() << S));
                let x = f.mul(&u, &f.pow(&G2SYLOW, &N::from(e)));
                let num = f.mul(&x, &scale);
                let den = scale;
                ctx.nontrivial();
                ctx.class(&format!("family:{}", if family.starts_with("order-2^") { "root-of-unity-order" } else { family.as_str() }));
                if family.starts_with("order-2^") {
                    ctx.class(&format!("e:{family}"));
                }
                let neg_e = e.wrapping_neg() & ((1u64 << S) - 1);
                for (i, (shift, width)) in WINDOWS.iter().enumerate() {
                    ctx.class(&format!("cell:w{i}:{}", (e >> shift) & ((1 << width) - 1)));
                    ctx.class(&format!("cell:w{i}:{}", (neg_e >> shift) & ((1 << width) - 1)));
                }
                let (flag, y) = call(*bk, &num, &den);
                // the construction itself tells squareness: x is a square iff e is even
                if flag != (e & 1 == 0) {
                    ctx.report(format!("C09|{}|flag-vs-construction", who(*bk)), format!("flag {flag} for a ratio whose 2-primary exponent is {e}"))?;
                }
                oracle_ratio(who(*bk), &num, &den, flag, &y, ctx)
            }
            Case::Raw { bk, num, den } => {
                let (num, den) = (&num.0 % &f.m, &den.0 % &f.m);
                let (flag, y) = call(*bk, &num, &den);
                oracle_ratio(who(*bk), &num, &den, flag, &y, ctx)?;
                // the routine is a function of its arguments: a short history of calls that share a numerator or a
                // denominator with the first one (any memo, lazily built table or leftover state would show here)
                let one = N::one();
                for (n2, d2) in [(one.clone(), den.clone()), (num.clone(), one.clone()), (den.clone(), num.clone()), (num.clone(), den.clone()), (one.clone(), den.clone())] {
                    let (flag2, y2) = call(*bk, &n2, &d2);
                    oracle_ratio(who(*bk), &n2, &d2, flag2, &y2, ctx)?;
                }
                let (flag3, y3) = call(*bk, &num, &den);
                if flag3 != flag || y3 != y {
                    ctx.report(format!("C09|{}|not-a-function", who(*bk)), format!("the same call sqrt_ratio({num:x}, {den:x}) gives a different result after other calls"))?;
                }
                Ok(())
            }
            Case::Sqrt { f: fid, x, mode } => {
                let fl = fid.fld();
                let x0 = &x.0 % &fl.m;
                let x = match mode % 3 {
                    0 => x0,
                    1 => {
                        ctx.nontrivial();
                        fl.sq(&x0)
                    }
                    _ => {
                        ctx.nontrivial();
                        fl.mul(&fl.sq(&x0), &fl.nonresidue)
                    }
                };
                match fid {
                    FId::Fq => sqrt_check!(decaf377::Fq, arkf::fq, arkf::fq_int, fl, &x, ctx),
                    FId::Fr => sqrt_check!(decaf377::Fr, arkf::fr, arkf::fr_int, fl, &x, ctx),
                    FId::Fp => sqrt_check!(decaf377::Fp, arkf::fp, arkf::fp_int, fl, &x, ctx),
                }
            }
        }
    }
    fn required_classes(&self, _tier: Tier) -> Vec<String> {
        let mut v = Vec::new();
        for (i, (_, width)) in WINDOWS.iter().enumerate() {
            for d in 0..(1u64 << width) {
                v.push(format!("cell:w{i}:{d}"));
            }
        }
        for k in 0..=S {
            v.push(format!("e:order-2^{k}"));
        }
        for w in ["ark:sqrt_ratio_zeta", "min:non_arkworks_sqrt_ratio_zeta"] {
            for r in ["num=0", "den=0", "square", "nonsquare"] {
                v.push(format!("{w}:row:{r}"));
            }
        }
        for f in ["Fq", "Fr", "Fp"] {
            for l in ["-1", "0", "1"] {
                v.push(format!("ark:{f}:legendre={l}"));
            }
        }
        v
    }
    fn extra_coverage(&self, classes: &mut std::collections::BTreeMap<String, u64>, cov: &mut serde_json::Map<String, serde_json::Value>) {
        // fold the 1408 (window, digit) cells and the 48 orders into a summary
        let mut matrix = Vec::new();
        for (i, (_, width)) in WINDOWS.iter().enumerate() {
            let total = 1u64 << width;
            let mut covered = 0;
            let mut min = u64::MAX;
            for d in 0..total {
                let k = format!("cell:w{i}:{d}");
                if let Some(c) = classes.remove(&k) {
                    covered += 1;
                    min = min.min(c);
                }
            }
            matrix.push(serde_json::json!({"window": i, "digits": total, "covered": covered, "min_hits": if covered > 0 { min } else { 0 }}));
        }
        cov.insert("window_digit_coverage".into(), serde_json::json!(matrix));
        let mut orders = 0;
        for k in 0..=S {
            if classes.remove(&format!("e:order-2^{k}")).is_some() {
                orders += 1;
            }
        }
        cov.insert("two_power_orders_seen".into(), serde_json::json!(orders));
    }
}
