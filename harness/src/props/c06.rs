//! C06 — every public constructor yields a valid group element (DESIGN §5/C06).

use crate::api::{ark, arkf, min, Ark, Backend, Coords, Min};
use crate::engine::{Ctx, Failure, Property, Tier};
use crate::gen::{self, pick, HexBytes, Num};
use crate::props::common::{bytes32_near, pt_src, Bk, Bytes32, PtSrc};
use crate::recipe::{self, judge_fast, Recipe};
use crate::refmodel::{Pt, CURVE, N, Q, R};
use crate::with_backend;
use proptest::prelude::*;
use serde::{Deserialize, Serialize};

pub struct C06;

type AE = ark::Element;
type AA = <ark::Element as ark_ec::CurveGroup>::Affine;

#[derive(Clone, Copy, Debug, Serialize, Deserialize, PartialEq, Eq, Hash)]
pub enum ConstKind {
    ElementGenerator,
    ElementIdentity,
    ElementDefault,
    ElementZero,
    GroupGenerator,
    AffineZero,
    AffineGenerator,
    AffineDefault,
    CurveConfigGenerator,
    MinGenerator,
    MinIdentity,
}
pub const CONSTS: &[ConstKind] = &[
    ConstKind::ElementGenerator,
    ConstKind::ElementIdentity,
    ConstKind::ElementDefault,
    ConstKind::ElementZero,
    ConstKind::GroupGenerator,
    ConstKind::AffineZero,
    ConstKind::AffineGenerator,
    ConstKind::AffineDefault,
    ConstKind::CurveConfigGenerator,
    ConstKind::MinGenerator,
    ConstKind::MinIdentity,
];

#[derive(Clone, Copy, Debug, Serialize, Deserialize, PartialEq, Eq, Hash)]
pub enum ConvOp {
    IntoAffineIntoGroup,
    FromElementForAffine,
    FromElementRefForAffine,
    FromAffineForElement,
    FromAffineRefForElement,
    MulByCofactorToGroup,
    ClearCofactor,
    MulByCofactor,
    MulByCofactorInv,
    AffineXY,
    /// scalar multiplication entry points of the affine type with boundary scalars: [1]A, [r+1]A, A * 1
    AffMulBigintOne,
    AffMulBigintOrderPlusOne,
    AffMulFrOne,
}
pub const CONVS: &[ConvOp] = &[
    ConvOp::IntoAffineIntoGroup,
    ConvOp::FromElementForAffine,
    ConvOp::FromElementRefForAffine,
    ConvOp::FromAffineForElement,
    ConvOp::FromAffineRefForElement,
    ConvOp::MulByCofactorToGroup,
    ConvOp::ClearCofactor,
    ConvOp::MulByCofactor,
    ConvOp::MulByCofactorInv,
    ConvOp::AffineXY,
    ConvOp::AffMulBigintOne,
    ConvOp::AffMulBigintOrderPlusOne,
    ConvOp::AffMulFrOne,
];

#[derive(Clone, Copy, Debug, Serialize, Deserialize, PartialEq, Eq, Hash)]
pub enum BatchOp {
    NormalizeBatch,
    BatchConvertToMulBase,
}

#[derive(Clone, Debug, Serialize, Deserialize)]
pub enum Case {
    Const(ConstKind),
    Decode { bk: Bk, b: Bytes32 },
    /// Standard / UniformRand samplers driven by a generated RNG stream: `prefix` is
    /// replayed first, then ChaCha20 seeded with `seed` (so rejection loops terminate)
    Sampler { affine: bool, uniform_rand: bool, prefix: HexBytes, seed: u64 },
    /// a degenerate random stream: a short cycle of 64-bit words repeated for `draws` words (a stuck or
    /// short-period generator), after which the stream continues as ChaCha20(seed) so that a correct
    /// rejection sampler always terminates
    SamplerStuck { affine: bool, uniform_rand: bool, cycle: Vec<u64>, draws: u32, seed: u64 },
    FromRandomBytes { family: String, bytes: HexBytes },
    Batch { rs: Vec<Recipe>, op: BatchOp },
    /// the R1CS variable's `value()` is a public conversion to a native Element too: a variable allocated
    /// (lazily) from an arbitrary field value, read back
    GadgetValue { val: Num, input: bool, force: bool },
    /// a long batch: element i is element i-1 plus `step` (so the projective scalings are all
    /// different), every seventh one is a fresh copy of one of `rs` (Z = 1, identities, ...)
    BigBatch { rs: Vec<Recipe>, step: Recipe, n: u16, op: BatchOp },
    Conv { r: Recipe, op: ConvOp },
    /// an element built by a recipe on either configuration (operator forms, ladders, the constant-time
    /// selection glue, ...): whatever the public API hands out must be a valid element
    Built { bk: Bk, r: Recipe },
    Elligator { bk: Bk, r1: Num, r2: Option<Num> },
    /// the (de)serialisation modes that are `unimplemented!()` on the pinned tree (uncompressed,
    /// unchecked, containers, which read their items with Validate::No): a panic saying "not
    /// implemented" is tolerated, but whatever such a mode *returns* must be a valid element
    DeserModes { bytes: HexBytes },
}

/// RNG that replays a byte prefix and then continues with ChaCha20
pub struct ReplayRng {
    prefix: Vec<u8>,
    pos: usize,
    tail: rand_chacha::ChaCha20Rng,
}
impl ReplayRng {
    pub fn new(prefix: &[u8], seed: u64) -> Self {
        use rand_core::SeedableRng;
        ReplayRng { prefix: prefix.to_vec(), pos: 0, tail: rand_chacha::ChaCha20Rng::seed_from_u64(seed) }
    }
}
impl rand_core::RngCore for ReplayRng {
    fn next_u32(&mut self) -> u32 {
        let mut b = [0u8; 4];
        self.fill_bytes(&mut b);
        u32::from_le_bytes(b)
    }
    fn next_u64(&mut self) -> u64 {
        let mut b = [0u8; 8];
        self.fill_bytes(&mut b);
        u64::from_le_bytes(b)
    }
    fn fill_bytes(&mut self, dest: &mut [u8]) {
        for d in dest.iter_mut() {
            if self.pos < self.prefix.len() {
                *d = self.prefix[self.pos];
                self.pos += 1;
            } else {
                let mut one = [0u8; 1];
                self.tail.fill_bytes(&mut one);
                *d = one[0];
            }
        }
    }
    fn try_fill_bytes(&mut self, dest: &mut [u8]) -> Result<(), rand_core::Error> {
        self.fill_bytes(dest);
        Ok(())
    }
}

/// the validity predicate on model coordinates
fn valid_point(what: &str, p: &Pt, ctx: &mut Ctx) -> Result<(), Failure> {
    let c = &*CURVE;
    ctx.sub_eval();
    if !c.on_curve(p) {
        return ctx.report(format!("C06|{what}|off-curve"), format!("{what}: ({:x}, {:x}) is not on the curve", p.x, p.y));
    }
    if !c.is_identity_element(&c.mul(&R.m, p)) {
        return ctx.report(format!("C06|{what}|outside-group"), format!("{what}: ({:x}, {:x}) is on the curve but r*P is not (0,+-1): the point is outside the group", p.x, p.y));
    }
    Ok(())
}

fn valid_elem<B: Backend>(what: &str, e: &B::E, ctx: &mut Ctx) -> Result<(), Failure> {
    let p = match Coords::of::<B>(e).affine() {
        Ok(p) => p,
        Err(why) => return ctx.report(format!("C06|{what}|malformed"), format!("{what}: {why}")),
    };
    valid_point(what, &p, ctx)?;
    // ... and through the API: the encoding decodes to an element equal to it, r*E is the identity
    let enc = B::encode(e);
    match B::decode(&enc) {
        Ok(back) if B::eq(&back, e) => {
            if let Err(why) = judge_fast::<B>(&back, &p) {
                ctx.report(format!("C06|{what}|roundtrip-other-element"), format!("{what}: decode(encode(E)): {why}"))?;
            }
        }
        Ok(_) => ctx.report(format!("C06|{what}|roundtrip-not-equal"), format!("{what}: decode(encode(E)) != E"))?,
        Err(e2) => ctx.report(format!("C06|{what}|encoding-rejected"), format!("{what}: its own encoding {} is rejected ({e2:?})", hex::encode(enc)))?,
    }
    let re = B::mul_limbs(e, &R.m.to_u64_digits());
    if !B::is_identity(&re) {
        ctx.report(format!("C06|{what}|r-times-not-identity"), format!("{what}: r*E is not the identity"))?;
    }
    if let Err(why) = B::self_check(e) {
        ctx.report(format!("C06|{what}|own-validity-check-rejects"), format!("{what}: a valid element is rejected by the library's own validity predicate: {why}"))?;
    }
    Ok(())
}

fn valid_affine(what: &str, a: &AA, ctx: &mut Ctx) -> Result<(), Failure> {
    use ark_ec::AffineRepr;
    // coordinates through the public AffineRepr::xy
    match a.xy() {
        Some((x, y)) => {
            let p = Pt { x: arkf::fq_int(x), y: arkf::fq_int(y) };
            valid_point(what, &p, ctx)?;
        }
        None => {
            // arkworks reports None for the neutral point (0,1)
            if !a.is_zero() {
                ctx.report(format!("C06|{what}|xy-none"), format!("{what}: xy() is None for a non-zero point"))?;
            }
        }
    }
    let e: AE = a.into_group();
    valid_elem::<Ark>(what, &e, ctx)
}

fn const_case(k: ConstKind, ctx: &mut Ctx) -> Result<(), Failure> {
    use ark_ec::{AffineRepr, Group};
    use ark_std::Zero;
    let c = &*CURVE;
    ctx.class(&format!("const:{k:?}"));
    ctx.nontrivial();
    let name = format!("{k:?}");
    let (is_gen, res) = match k {
        ConstKind::ElementGenerator => (true, valid_elem::<Ark>(&name, &AE::GENERATOR, ctx).map(|_| Coords::of::<Ark>(&AE::GENERATOR))),
        ConstKind::ElementIdentity => (false, valid_elem::<Ark>(&name, &AE::IDENTITY, ctx).map(|_| Coords::of::<Ark>(&AE::IDENTITY))),
        ConstKind::ElementDefault => (false, valid_elem::<Ark>(&name, &AE::default(), ctx).map(|_| Coords::of::<Ark>(&AE::default()))),
        ConstKind::ElementZero => (false, valid_elem::<Ark>(&name, &AE::zero(), ctx).map(|_| Coords::of::<Ark>(&AE::zero()))),
        ConstKind::GroupGenerator => (true, valid_elem::<Ark>(&name, &<AE as Group>::generator(), ctx).map(|_| Coords::of::<Ark>(&<AE as Group>::generator()))),
        ConstKind::AffineZero => (false, valid_affine(&name, &AA::zero(), ctx).map(|_| Coords::of::<Ark>(&AA::zero().into_group()))),
        ConstKind::AffineGenerator => (true, valid_affine(&name, &AA::generator(), ctx).map(|_| Coords::of::<Ark>(&AA::generator().into_group()))),
        ConstKind::AffineDefault => (false, valid_affine(&name, &AA::default(), ctx).map(|_| Coords::of::<Ark>(&AA::default().into_group()))),
        ConstKind::CurveConfigGenerator => {
            use ark_ec::twisted_edwards::TECurveConfig;
            let g = <<AE as ark_ec::CurveGroup>::Config as TECurveConfig>::GENERATOR;
            let p = Pt { x: arkf::fq_int(&g.x), y: arkf::fq_int(&g.y) };
            valid_point(&name, &p, ctx)?;
            if !c.same_element(&crate::refmodel::GEN, &p) {
                ctx.report(format!("C06|{name}|not-generator"), "TECurveConfig::GENERATOR is not decode(8)".to_string())?;
            }
            return Ok(());
        }
        ConstKind::MinGenerator => (true, valid_elem::<Min>(&name, &min::Element::GENERATOR, ctx).map(|_| Coords::of::<Min>(&min::Element::GENERATOR))),
        ConstKind::MinIdentity => (false, valid_elem::<Min>(&name, &min::Element::IDENTITY, ctx).map(|_| Coords::of::<Min>(&min::Element::IDENTITY))),
    };
    let co = res?;
    // the constants must also be *the* generator / *the* identity
    let want = if is_gen { crate::refmodel::GEN.clone() } else { c.identity() };
    match co.affine() {
        Ok(p) if c.same_element(&want, &p) => Ok(()),
        Ok(p) => ctx.report(format!("C06|{name}|wrong-constant"), format!("{name} denotes ({:x},{:x})", p.x, p.y)),
        Err(why) => ctx.report(format!("C06|{name}|malformed"), format!("{name}: {why}")),
    }
}

fn conv_case(r: &Recipe, op: ConvOp, ctx: &mut Ctx) -> Result<(), Failure> {
    use ark_ec::{AffineRepr, CurveGroup};
    let m = r.model();
    let e = r.lib::<Ark>(&m);
    ctx.class(&format!("conv:{op:?}"));
    ctx.nontrivial();
    let name = format!("{op:?}");
    let a: AA = e.into_affine();
    let out: AE = match op {
        ConvOp::IntoAffineIntoGroup => a.into_group(),
        ConvOp::FromElementForAffine => {
            let a2: AA = AA::from(e);
            valid_affine(&name, &a2, ctx)?;
            a2.into()
        }
        ConvOp::FromElementRefForAffine => {
            let a2: AA = AA::from(&e);
            valid_affine(&name, &a2, ctx)?;
            (&a2).into()
        }
        ConvOp::FromAffineForElement => AE::from(a),
        ConvOp::FromAffineRefForElement => AE::from(&a),
        ConvOp::MulByCofactorToGroup => a.mul_by_cofactor_to_group(),
        ConvOp::ClearCofactor => {
            let a2 = a.clear_cofactor();
            valid_affine(&name, &a2, ctx)?;
            a2.into_group()
        }
        ConvOp::MulByCofactor => {
            let a2 = a.mul_by_cofactor();
            valid_affine(&name, &a2, ctx)?;
            a2.into_group()
        }
        ConvOp::MulByCofactorInv => {
            let a2 = a.mul_by_cofactor_inv();
            valid_affine(&name, &a2, ctx)?;
            a2.into_group()
        }
        ConvOp::AffineXY => {
            valid_affine(&name, &a, ctx)?;
            a.into_group()
        }
        ConvOp::AffMulBigintOne => a.mul_bigint([1u64]),
        ConvOp::AffMulBigintOrderPlusOne => a.mul_bigint((&R.m + 1u32).to_u64_digits()),
        ConvOp::AffMulFrOne => a * arkf::fr(&N::from(1u32)),
    };
    valid_elem::<Ark>(&name, &out, ctx)?;
    // conversions and cofactor operations (cofactor 1) must preserve the element
    if let Err(why) = judge_fast::<Ark>(&out, &m.pt) {
        ctx.report(format!("C06|{name}|changes-element"), format!("{name}: {why}"))?;
    }
    Ok(())
}

fn batch_case(rs: &[Recipe], op: BatchOp, ctx: &mut Ctx) -> Result<(), Failure> {
    use ark_ec::{AffineRepr, CurveGroup, ScalarMul};
    let c = &*CURVE;
    let ms: Vec<_> = rs.iter().map(|r| r.model()).collect();
    let es: Vec<AE> = rs.iter().zip(ms.iter()).map(|(r, m)| r.lib::<Ark>(m)).collect();
    ctx.class(&format!("batch:{op:?}"));
    ctx.class(&format!("batch-len:{}", rs.len()));
    if rs.len() >= 2 {
        ctx.nontrivial();
    }
    if ms.iter().any(|m| m.pt == c.t2()) || es.iter().any(|e| Coords::of::<Ark>(e).affine().map(|p| p == c.t2()).unwrap_or(false)) {
        ctx.class("batch:contains-T2-representative");
    }
    let name = format!("{op:?}");
    let out: Vec<AA> = match op {
        BatchOp::NormalizeBatch => AE::normalize_batch(&es),
        BatchOp::BatchConvertToMulBase => AE::batch_convert_to_mul_base(&es),
    };
    if out.len() != es.len() {
        return ctx.report(format!("C06|{name}|length"), format!("{name} returned {} points for {} elements", out.len(), es.len()));
    }
    for (i, a) in out.iter().enumerate() {
        valid_affine(&name, a, ctx)?;
        if let Err(why) = judge_fast::<Ark>(&a.into_group(), &ms[i].pt) {
            ctx.report(format!("C06|{name}|changes-element"), format!("{name}[{i}]: {why}"))?;
        }
    }
    Ok(())
}

fn gadget_value_case(val: &N, input: bool, force: bool, ctx: &mut Ctx) -> Result<(), Failure> {
    use ark_r1cs_std::prelude::*;
    use ark_r1cs_std::R1CSVar;
    use ark_relations::r1cs::ConstraintSystem;
    use decaf377::r1cs::ElementVar;
    use std::panic::{catch_unwind, AssertUnwindSafe};
    let c = &*CURVE;
    let fv = arkf::fq(&(val % &Q.m));
    let valid = c.decode_int(&(val % &Q.m)).is_ok();
    ctx.class(&format!("gadget-value:{}", if valid { "valid-encoding" } else { "invalid-encoding" }));
    ctx.nontrivial();
    let r = catch_unwind(AssertUnwindSafe(|| {
        let cs = ConstraintSystem::<ark::Fq>::new_ref();
        let mode = if input { AllocationMode::Input } else { AllocationMode::Witness };
        let var = <ElementVar as AllocVar<ark::Fq, ark::Fq>>::new_variable(cs.clone(), || Ok(fv), mode).ok()?;
        if force {
            // forcing the element first (as any gadget consuming it does) must not change what value() hands out
            let _ = var.is_eq(&var);
        }
        var.value().ok()
    }));
    match r {
        // refusing (error or assertion) is always acceptable for an invalid encoding
        Err(_) | Ok(None) => {
            if valid {
                ctx.report("C06|ElementVar::value|refuses-valid".to_string(), format!("value() of a variable allocated from the valid encoding {val:x} fails"))?;
            }
            Ok(())
        }
        Ok(Some(e)) => {
            valid_elem::<Ark>("ElementVar::value", &e, ctx)?;
            if valid {
                let want = c.decode_int(&(val % &Q.m)).unwrap();
                if let Err(why) = judge_fast::<Ark>(&e, &want) {
                    ctx.report("C06|ElementVar::value|wrong-element".to_string(), format!("value() of the variable allocated from {val:x}: {why}"))?;
                }
            }
            Ok(())
        }
    }
}

fn big_batch_case(rs: &[Recipe], step: &Recipe, n: usize, op: BatchOp, ctx: &mut Ctx) -> Result<(), Failure> {
    use ark_ec::{AffineRepr, CurveGroup, ScalarMul};
    let c = &*CURVE;
    let name = format!("{op:?}(long)");
    ctx.class(&format!("big-batch:{op:?}:len{}", match n { 0..=127 => "<128", 128..=129 => "128-129", 130..=255 => "130-255", 256..=257 => "256-257", _ => ">257" }));
    ctx.nontrivial();
    let sm = step.model();
    let se = step.lib::<Ark>(&sm);
    let seeds: Vec<(Pt, AE)> = rs.iter().map(|r| { let m = r.model(); let e = r.lib::<Ark>(&m); (m.pt, e) }).collect();
    if seeds.is_empty() {
        return Ok(());
    }
    let mut ms: Vec<Pt> = Vec::with_capacity(n);
    let mut es: Vec<AE> = Vec::with_capacity(n);
    let (mut mp, mut ep) = seeds[0].clone();
    for i in 0..n {
        if i % 7 == 3 {
            let (m, e) = &seeds[(i / 7) % seeds.len()];
            ms.push(m.clone());
            es.push(*e);
        } else {
            mp = c.add(&mp, &sm.pt);
            ep = ep + se;
            ms.push(mp.clone());
            es.push(ep);
        }
    }
    let out: Vec<AA> = match op {
        BatchOp::NormalizeBatch => AE::normalize_batch(&es),
        BatchOp::BatchConvertToMulBase => AE::batch_convert_to_mul_base(&es),
    };
    if out.len() != es.len() {
        return ctx.report(format!("C06|{name}|length"), format!("{name} returned {} points for {} elements", out.len(), es.len()));
    }
    for (i, a) in out.iter().enumerate() {
        ctx.sub_eval();
        // the coordinates must denote the model's (valid) point or its coset partner: implies on-curve and in the group
        if let Err(why) = judge_fast::<Ark>(&a.into_group(), &ms[i]) {
            return ctx.report(format!("C06|{name}|off-curve-or-changed"), format!("{name} of {n} elements, element {i}: {why}"));
        }
        let back: AE = (*a).into();
        if back.vartime_compress().0 != c.encode_bytes(&ms[i]) {
            return ctx.report(format!("C06|{name}|encoding"), format!("{name} of {n} elements, element {i}: the returned point does not encode like the element it came from"));
        }
    }
    Ok(())
}

fn sampler_case(affine: bool, uniform_rand: bool, prefix: &[u8], seed: u64, ctx: &mut Ctx) -> Result<(), Failure> {
    use ark_std::rand::distributions::{Distribution, Standard};
    use ark_std::UniformRand;
    let mut rng = ReplayRng::new(prefix, seed);
    ctx.class(&format!("sampler:{}:{}", if affine { "AffinePoint" } else { "Element" }, if uniform_rand { "UniformRand" } else { "Standard" }));
    ctx.nontrivial();
    for i in 0..3 {
        if affine {
            let a: AA = if uniform_rand { AA::rand(&mut rng) } else { Standard.sample(&mut rng) };
            valid_affine("sampler:AffinePoint", &a, ctx)?;
        } else {
            let e: AE = if uniform_rand { AE::rand(&mut rng) } else { Standard.sample(&mut rng) };
            valid_elem::<Ark>("sampler:Element", &e, ctx)?;
        }
        let _ = i;
    }
    Ok(())
}

fn deser_modes_case(bytes: &[u8], ctx: &mut Ctx) -> Result<(), Failure> {
    use ark_ec::AffineRepr;
    use ark_serialize::{CanonicalDeserialize, Compress, Validate};
    use std::panic::{catch_unwind, AssertUnwindSafe};
    let mut tried = |name: &str, f: &dyn Fn() -> Result<Vec<AE>, ark_serialize::SerializationError>, ctx: &mut Ctx| -> Result<(), Failure> {
        ctx.sub_eval();
        match catch_unwind(AssertUnwindSafe(f)) {
            Err(p) => {
                let msg = p.downcast_ref::<&str>().map(|s| s.to_string()).or_else(|| p.downcast_ref::<String>().cloned()).unwrap_or_default();
                if msg.contains("not implemented") {
                    ctx.class(&format!("deser-mode:{name}:unimplemented(tolerated)"));
                    Ok(())
                } else {
                    ctx.report(format!("C06|deser-mode:{name}|panic"), format!("{name} panicked: {msg}"))
                }
            }
            Ok(Err(_)) => {
                ctx.class(&format!("deser-mode:{name}:err"));
                Ok(())
            }
            Ok(Ok(es)) => {
                ctx.class(&format!("deser-mode:{name}:ok"));
                for e in es {
                    valid_elem::<Ark>(&format!("deser-mode:{name}"), &e, ctx)?;
                }
                Ok(())
            }
        }
    };
    let b = bytes.to_vec();
    for (cn, c) in [("compressed", Compress::Yes), ("uncompressed", Compress::No)] {
        for (vn, v) in [("validated", Validate::Yes), ("unchecked", Validate::No)] {
            if cn == "compressed" && vn == "validated" {
                continue; // the ordinary entry point, covered by the Decode cases and by C02
            }
            let bb = b.clone();
            tried(&format!("Element:{cn}:{vn}"), &move || AE::deserialize_with_mode(&bb[..], c, v).map(|e| vec![e]), ctx)?;
            let bb = b.clone();
            tried(&format!("AffinePoint:{cn}:{vn}"), &move || AA::deserialize_with_mode(&bb[..], c, v).map(|a| vec![a.into_group()]), ctx)?;
        }
    }
    // containers: length prefix (u64 LE) followed by the items
    let n = (bytes.len() / 32).min(3);
    let mut framed = (n as u64).to_le_bytes().to_vec();
    framed.extend_from_slice(&bytes[..32 * n]);
    let fb = framed.clone();
    tried("Vec<Element>:compressed", &move || Vec::<AE>::deserialize_compressed(&fb[..]), ctx)?;
    let fb = framed.clone();
    tried("Vec<AffinePoint>:compressed", &move || Vec::<AA>::deserialize_compressed(&fb[..]).map(|v| v.into_iter().map(|a| a.into_group()).collect()), ctx)?;
    if bytes.len() >= 64 {
        let bb = b.clone();
        tried("[Element;2]:compressed", &move || <[AE; 2]>::deserialize_compressed(&bb[..]).map(|a| a.to_vec()), ctx)?;
    }
    Ok(())
}

fn from_random_bytes_case(bytes: &[u8], ctx: &mut Ctx) -> Result<(), Failure> {
    use ark_ec::AffineRepr;
    ctx.class("from_random_bytes:calls");
    match AA::from_random_bytes(bytes) {
        None => {
            ctx.class("from_random_bytes:none");
            Ok(())
        }
        Some(a) => {
            ctx.class("from_random_bytes:some");
            ctx.nontrivial();
            valid_affine("AffineRepr::from_random_bytes", &a, ctx)
        }
    }
}

/// y-coordinate byte strings that make `from_random_bytes` interesting: y of group
/// points, of their coset partners, of 4-torsion shifts (on the curve, outside the group)
fn frb_bytes() -> BoxedStrategy<(String, Vec<u8>)> {
    let sqrt_m1 = Q.sqrt(&Q.neg(&N::from(1u32))).expect("-1 is a square");
    prop_oneof![
        3 => (pt_src(), 0u8..4, any::<bool>(), 0usize..6).prop_map(move |(src, which, flag, extra)| {
            let c = &*CURVE;
            let p = src.point();
            let t4 = Pt { x: sqrt_m1.clone(), y: N::from(0u32) };
            let (fam, q) = match which {
                0 => ("y-of-group-point", p),
                1 => ("y-of-coset-partner", c.other_rep(&p)),
                2 => ("y-of-4torsion-shift", c.add(&p, &t4)),
                _ => ("y-of-negated-4torsion-shift", c.neg(&c.add(&p, &t4))),
            };
            let mut b = crate::refmodel::le32(&q.y).to_vec();
            if flag {
                b[31] |= 0x80;
            }
            b.extend(std::iter::repeat(0u8).take(extra));
            (fam.to_string(), b)
        }),
        2 => gen::bytes(0..=80usize).prop_map(|b| ("pattern-bytes".to_string(), b)),
        1 => (gen::fq(), any::<bool>()).prop_map(|(v, f)| { let mut b = crate::refmodel::le32(&v.0).to_vec(); if f { b[31] |= 0x80; } ("field-pattern".to_string(), b) }),
    ]
    .boxed()
}

impl Property for C06 {
    type Case = Case;
    const ID: &'static str = "C06";
    fn rule(&self) -> String {
        "cases: constructor x generated argument: the 11 public constants; decoders on near-miss strings; Standard/UniformRand samplers for Element and \
         AffinePoint driven by generated RNG streams (replayed prefix of 0..=256 structured bytes, then ChaCha20); AffineRepr::from_random_bytes on \
         0..=80-byte strings incl. y-coordinates of group points, coset partners and 4-torsion shifts; normalize_batch / batch_convert_to_mul_base on \
         vectors of 0..=6 recipes and on batches of up to 700 elements around the 128 / 256 block boundaries; 10 conversion / cofactor operations; encode_to_curve / hash_to_curve incl. related input pairs (equal, opposite, cancelling summands); samplers on stuck / short-cycle RNG streams; elements built by recipes on both configurations (operator forms, ladders, constant-time selection glue); R1CS ElementVar::value() of variables allocated from arbitrary field values; the library's own Valid::check / batch_check on every valid element. Oracle: validity predicate evaluated by the \
         model on the coordinates (on the curve, Z != 0, T*Z = X*Y, r*P in {(0,+-1)}) plus decode(encode(E)) == E and r*E identity through the API. \
         Non-trivial: constructor call with a generated argument that returned an element; distinct by digest"
            .into()
    }
    fn assumptions(&self) -> Vec<String> {
        vec![
            "a constant RNG stream can make any rejection sampler spin for ever (inherent); generated streams therefore end in a ChaCha20 tail".into(),
            "new_variable_omit_prime_order_check and the verification-only unchecked hook are not public constructors in the sense of the property".into(),
        ]
    }
    fn cases(&self, tier: Tier) -> u64 {
        tier.pick(20_000, 1_000_000)
    }
    fn strategy(&self, _tier: Tier) -> BoxedStrategy<Case> {
        let bk = || prop_oneof![4 => Just(Bk::Ark), 1 => Just(Bk::Min)];
        prop_oneof![
            3 => (bk(), bytes32_near()).prop_map(|(bk, b)| Case::Decode { bk, b }),
            3 => (any::<bool>(), any::<bool>(), gen::bytes(0..=256usize), any::<u64>()).prop_map(|(affine, uniform_rand, p, seed)| Case::Sampler { affine, uniform_rand, prefix: HexBytes(p), seed }),
            1 => (any::<bool>(), any::<bool>(), gen::limb_vec(1..=3usize), prop_oneof![1 => 0u32..1500, 3 => 1500u32..6000], any::<u64>())
                .prop_map(|(affine, uniform_rand, cycle, draws, seed)| Case::SamplerStuck { affine, uniform_rand, cycle, draws, seed }),
            5 => frb_bytes().prop_map(|(family, b)| Case::FromRandomBytes { family, bytes: HexBytes(b) }),
            1 => (crate::r1cs_lang::fq_input(), any::<bool>(), any::<bool>()).prop_map(|(val, input, force)| Case::GadgetValue { val, input, force }),
            1 => (proptest::collection::vec(recipe::recipe_small(), 1..=3), recipe::recipe_small(), prop_oneof![Just(127u16), Just(128), Just(129), Just(130), Just(131), Just(255), Just(256), Just(257), Just(258), Just(300), 0u16..700], any::<bool>())
                .prop_map(|(rs, step, n, w)| Case::BigBatch { rs, step, n, op: if w { BatchOp::NormalizeBatch } else { BatchOp::BatchConvertToMulBase } }),
            3 => (proptest::collection::vec(recipe::recipe_small(), 0..=6), any::<bool>()).prop_map(|(rs, w)| Case::Batch { rs, op: if w { BatchOp::NormalizeBatch } else { BatchOp::BatchConvertToMulBase } }),
            3 => (recipe::recipe(), any::<u16>()).prop_map(|(r, i)| Case::Conv { r, op: CONVS[pick(i, CONVS.len())] }),
            2 => (bk(), recipe::recipe()).prop_map(|(bk, r)| Case::Built { bk, r }),
            1 => (bk(), gen::fq_special(), proptest::option::of(gen::fq_special())).prop_map(|(bk, r1, r2)| Case::Elligator { bk, r1, r2 }),
            // two-input hash with related inputs: equal, opposite, cancelling summands
            1 => (bk(), gen::fq_special(), 0u8..5).prop_map(|(bk, r1, rel)| {
                let r = &r1.0 % &Q.m;
                let c = Q.inv(&Q.mul(&CURVE.zeta, &r)).unwrap_or_default();
                let r2 = match rel { 0 => r.clone(), 1 => Q.neg(&r), 2 => c, 3 => Q.neg(&c), _ => N::from(0u32) };
                Case::Elligator { bk, r1: Num(r), r2: Some(Num(r2)) }
            }),
            // bytes for the rarely used modes: valid encodings, near misses, coordinates of curve points (in and out of the group)
            2 => (proptest::collection::vec(prop_oneof![
                    2 => bytes32_near().prop_map(|b| b.bytes.0),
                    1 => (pt_src(), any::<bool>()).prop_map(|(s, shift)| {
                        let c = &*CURVE;
                        let i = Q.sqrt(&Q.neg(&N::from(1u32))).unwrap();
                        let p = if shift { c.add(&s.point(), &Pt { x: i, y: N::from(0u32) }) } else { s.point() };
                        let mut v = crate::refmodel::le32(&p.x).to_vec();
                        v.extend_from_slice(&crate::refmodel::le32(&p.y));
                        v
                    }),
                ], 1..=3)).prop_map(|parts| Case::DeserModes { bytes: HexBytes(parts.concat()) }),
        ]
        .boxed()
    }
    fn edges(&self, _tier: Tier) -> Vec<Case> {
        use Recipe::*;
        let mut v: Vec<Case> = CONSTS.iter().map(|k| Case::Const(*k)).collect();
        let g = || Box::new(Generator);
        let specials = vec![Identity, Default, Generator, Torsion(Box::new(Identity)), Torsion(g()), MinusOneTimes(g()), Sub(g(), g()), MulLimbs(R.m.to_u64_digits(), g())];
        for r in &specials {
            for op in CONVS {
                v.push(Case::Conv { r: r.clone(), op: *op });
            }
        }
        for bk in [Bk::Ark, Bk::Min] {
            for r in [1u32, 2, 5] {
                let r = N::from(r);
                let c = Q.inv(&Q.mul(&CURVE.zeta, &r)).unwrap();
                for r2 in [r.clone(), Q.neg(&r), c.clone(), Q.neg(&c), N::from(0u32)] {
                    v.push(Case::Elligator { bk, r1: Num(r.clone()), r2: Some(Num(r2)) });
                }
            }
        }
        // elements that went through the constant-time selection glue (select / assign / swap must agree)
        for (a, b) in [(Identity, Double(g())), (Double(g()), Identity), (Generator, Add(g(), Box::new(Elligator(3u64.into())))), (Add(g(), Box::new(Elligator(3u64.into()))), Sub(g(), Box::new(Elligator(5u64.into()))))] {
            for choice in [false, true] {
                v.push(Case::Conv { r: Select(choice, Box::new(a.clone()), Box::new(b.clone())), op: ConvOp::IntoAffineIntoGroup });
                v.push(Case::Built { bk: Bk::Min, r: Select(choice, Box::new(a.clone()), Box::new(b.clone())) });
                v.push(Case::Built { bk: Bk::Ark, r: Select(choice, Box::new(a.clone()), Box::new(b.clone())) });
            }
        }
        for op in [BatchOp::NormalizeBatch, BatchOp::BatchConvertToMulBase] {
            for val in [0u32, 1, 2, 3, 4, 7, 8, 10] {
                for force in [false, true] {
                    v.push(Case::GadgetValue { val: Num(N::from(val)), input: false, force });
                }
            }
            v.push(Case::Batch { rs: vec![], op });
            for n in [1u16, 2, 64, 127, 128, 129, 130, 200, 256, 257, 513] {
                v.push(Case::BigBatch { rs: vec![Generator, Torsion(Box::new(Identity)), Identity, MulGen(9u64.into())], step: Elligator(3u64.into()), n, op });
            }
            v.push(Case::Batch { rs: specials.clone(), op });
            v.push(Case::Batch { rs: vec![Torsion(Box::new(Identity)), Generator, MulGen(5u64.into())], op });
            v.push(Case::Batch { rs: vec![Generator, Torsion(Box::new(Identity)), MulGen(5u64.into()), Identity, Double(g())], op });
        }
        for len in [0usize, 1, 31, 32, 33, 64] {
            v.push(Case::FromRandomBytes { family: "zeros".into(), bytes: HexBytes(vec![0; len]) });
            v.push(Case::FromRandomBytes { family: "ones".into(), bytes: HexBytes(vec![0xff; len]) });
        }
        for k in 0u32..40 {
            let p = PtSrc::SmallMul(k).point();
            for flag in [0u8, 0x80] {
                let mut b = crate::refmodel::le32(&p.y).to_vec();
                b[31] |= flag;
                v.push(Case::FromRandomBytes { family: "y-of-small-multiple".into(), bytes: HexBytes(b) });
                let mut b = crate::refmodel::le32(&N::from(k)).to_vec();
                b[31] |= flag;
                v.push(Case::FromRandomBytes { family: "small-y".into(), bytes: HexBytes(b) });
            }
        }
        {
            let c = &*CURVE;
            let i = Q.sqrt(&Q.neg(&N::from(1u32))).unwrap();
            let mut pts = vec![Pt { x: i.clone(), y: N::from(0u32) }, c.identity(), c.t2(), crate::refmodel::GEN.clone()];
            for k in 1u32..12 {
                let p = PtSrc::SmallMul(k).point();
                pts.push(c.add(&p, &Pt { x: i.clone(), y: N::from(0u32) }));
                pts.push(p);
            }
            for p in pts {
                let mut b = crate::refmodel::le32(&p.x).to_vec();
                b.extend_from_slice(&crate::refmodel::le32(&p.y));
                v.push(Case::DeserModes { bytes: HexBytes(b) });
            }
            for s in [0u32, 1, 2, 3, 4, 8] {
                let mut b = crate::refmodel::le32(&N::from(s)).to_vec();
                b.extend_from_slice(&crate::refmodel::le32(&N::from(8u32)));
                v.push(Case::DeserModes { bytes: HexBytes(b) });
            }
        }
        for seed in 0..8u64 {
            for (a, u) in [(false, false), (false, true), (true, false), (true, true)] {
                v.push(Case::Sampler { affine: a, uniform_rand: u, prefix: HexBytes(vec![]), seed });
                v.push(Case::Sampler { affine: a, uniform_rand: u, prefix: HexBytes(vec![0; 64]), seed });
                v.push(Case::Sampler { affine: a, uniform_rand: u, prefix: HexBytes(vec![0xff; 64]), seed });
                for w in [0u64, 1, u64::MAX, 0x0123_4567_89ab_cdef, 0x8000_0000_0000_0000, 0x5555_5555_5555_5555] {
                    v.push(Case::SamplerStuck { affine: a, uniform_rand: u, cycle: vec![w], draws: 4000, seed });
                }
                v.push(Case::SamplerStuck { affine: a, uniform_rand: u, cycle: vec![3, u64::MAX - 2], draws: 4000, seed });
            }
        }
        v
    }
    fn check(&self, case: &Case, ctx: &mut Ctx) -> Result<(), Failure> {
        match case {
            Case::Const(k) => const_case(*k, ctx),
            Case::Decode { bk, b } => {
                ctx.class(&format!("{}:decode", bk.name()));
                with_backend!(*bk, B => {
                    match B::decode(&b.arr()) {
                        Err(_) => Ok(()),
                        Ok(e) => {
                            ctx.nontrivial();
                            ctx.class(&format!("{}:decode:accepted", bk.name()));
                            valid_elem::<B>(&format!("{}:decode", B::NAME), &e, ctx)
                        }
                    }
                })
            }
            Case::Sampler { affine, uniform_rand, prefix, seed } => sampler_case(*affine, *uniform_rand, &prefix.0, *seed, ctx),
            Case::SamplerStuck { affine, uniform_rand, cycle, draws, seed } => {
                let mut prefix = Vec::with_capacity(*draws as usize * 8);
                if !cycle.is_empty() {
                    for i in 0..(*draws).min(20_000) as usize {
                        prefix.extend_from_slice(&cycle[i % cycle.len()].to_le_bytes());
                    }
                }
                ctx.class(&format!("sampler:stuck-stream:cycle{}:{}", cycle.len(), if *draws >= 1500 { "long" } else { "short" }));
                sampler_case(*affine, *uniform_rand, &prefix, *seed, ctx)
            }
            Case::FromRandomBytes { family, bytes } => {
                ctx.class(&format!("from_random_bytes:{family}"));
                from_random_bytes_case(&bytes.0, ctx)
            }
            Case::Batch { rs, op } => batch_case(rs, *op, ctx),
            Case::BigBatch { rs, step, n, op } => big_batch_case(rs, step, *n as usize, *op, ctx),
            Case::GadgetValue { val, input, force } => gadget_value_case(&val.0, *input, *force, ctx),
            Case::Conv { r, op } => conv_case(r, *op, ctx),
            Case::Built { bk, r } => {
                ctx.nontrivial();
                ctx.class(&format!("{}:built", bk.name()));
                with_backend!(*bk, B => {
                    let m = r.model();
                    let e = r.lib::<B>(&m);
                    valid_elem::<B>(&format!("{}:built", B::NAME), &e, ctx)?;
                    if let Err(why) = judge_fast::<B>(&e, &m.pt) {
                        ctx.report(format!("C06|{}:built|wrong-element", B::NAME), why)?;
                    }
                    Ok(())
                })
            }
            Case::DeserModes { bytes } => {
                ctx.nontrivial();
                deser_modes_case(&bytes.0, ctx)
            }
            Case::Elligator { bk, r1, r2 } => {
                if r1.0 >= Q.m || r2.as_ref().map(|r| r.0 >= Q.m).unwrap_or(false) {
                    ctx.excluded();
                    return Ok(());
                }
                ctx.nontrivial();
                ctx.class(&format!("{}:elligator", bk.name()));
                with_backend!(*bk, B => {
                    let e = match r2 { None => B::elligator(&r1.0), Some(r2) => B::hash2(&r1.0, &r2.0) };
                    valid_elem::<B>(&format!("{}:hash-to-group", B::NAME), &e, ctx)
                })
            }
        }
    }
    fn shrink_candidates(&self, case: &Case) -> Vec<Case> {
        let mut v = Vec::new();
        match case {
            Case::Batch { rs, op } => {
                for i in 0..rs.len() {
                    let mut a = rs.clone();
                    a.remove(i);
                    v.push(Case::Batch { rs: a, op: *op });
                }
                for (i, r) in rs.iter().enumerate() {
                    for s in r.shrinks() {
                        let mut a = rs.clone();
                        a[i] = s;
                        v.push(Case::Batch { rs: a, op: *op });
                    }
                }
            }
            Case::BigBatch { rs, step, n, op } => {
                for m in [*n / 2, n.saturating_sub(1), n.saturating_sub(16), 130, 129] {
                    if m < *n {
                        v.push(Case::BigBatch { rs: rs.clone(), step: step.clone(), n: m, op: *op });
                    }
                }
                if rs.len() > 1 {
                    v.push(Case::BigBatch { rs: vec![rs[0].clone()], step: step.clone(), n: *n, op: *op });
                }
                for s in step.shrinks() {
                    v.push(Case::BigBatch { rs: rs.clone(), step: s, n: *n, op: *op });
                }
            }
            Case::SamplerStuck { affine, uniform_rand, cycle, draws, seed } => {
                for d in [*draws / 2, draws.saturating_sub(100), 2000, 1400] {
                    if d < *draws {
                        v.push(Case::SamplerStuck { affine: *affine, uniform_rand: *uniform_rand, cycle: cycle.clone(), draws: d, seed: *seed });
                    }
                }
                if cycle.len() > 1 {
                    v.push(Case::SamplerStuck { affine: *affine, uniform_rand: *uniform_rand, cycle: vec![cycle[0]], draws: *draws, seed: *seed });
                }
                if *seed != 0 {
                    v.push(Case::SamplerStuck { affine: *affine, uniform_rand: *uniform_rand, cycle: cycle.clone(), draws: *draws, seed: 0 });
                }
            }
            Case::Conv { r, op } => {
                for s in r.shrinks() {
                    v.push(Case::Conv { r: s, op: *op });
                }
            }
            Case::Sampler { affine, uniform_rand, prefix, seed } => {
                if !prefix.0.is_empty() {
                    v.push(Case::Sampler { affine: *affine, uniform_rand: *uniform_rand, prefix: HexBytes(vec![]), seed: *seed });
                }
            }
            _ => {}
        }
        v
    }
    fn required_classes(&self, _tier: Tier) -> Vec<String> {
        let mut v: Vec<String> = CONSTS.iter().map(|k| format!("const:{k:?}")).collect();
        v.extend(CONVS.iter().map(|k| format!("conv:{k:?}")));
        for s in ["batch:NormalizeBatch", "batch:BatchConvertToMulBase", "batch:contains-T2-representative", "from_random_bytes:some", "from_random_bytes:none", "sampler:Element:Standard", "sampler:AffinePoint:UniformRand", "ark:decode:accepted", "min:decode:accepted"] {
            v.push(s.to_string());
        }
        v
    }
    fn extra_coverage(&self, classes: &mut std::collections::BTreeMap<String, u64>, cov: &mut serde_json::Map<String, serde_json::Value>) {
        let s = classes.get("from_random_bytes:some").copied().unwrap_or(0) as f64;
        let n = classes.get("from_random_bytes:calls").copied().unwrap_or(0) as f64;
        if n > 0.0 {
            cov.insert("from_random_bytes_acceptance_rate".into(), serde_json::json!(s / n));
        }
    }
}
