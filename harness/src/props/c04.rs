//! C04 — every form of addition, subtraction and negation computes the group law
//! (DESIGN §5/C04). Straight-line programs over a register file mix all operator forms;
//! the model register file is compared after every instruction.

use crate::api::{ark, min, Ark, Backend, Min};
use crate::engine::{Ctx, Failure, Property, Tier};
use crate::gen::pick;
use crate::props::common::{backend, Bk};
use crate::recipe::{self, judge_fast, Recipe};
use crate::refmodel::{Pt, CURVE};
use proptest::prelude::*;
use serde::{Deserialize, Serialize};

pub struct C04;

pub const NREG: usize = 5;

macro_rules! forms {
    ($( $name:ident : $ark:expr, $min:expr, $arity:expr, $op:ident ;)*) => {
        #[derive(Clone, Copy, Debug, Serialize, Deserialize, PartialEq, Eq, Hash)]
        pub enum Form { $($name),* }
        pub const ALL_FORMS: &[Form] = &[$(Form::$name),*];
        impl Form {
            pub fn in_ark(self) -> bool { match self { $(Form::$name => $ark),* } }
            pub fn in_min(self) -> bool { match self { $(Form::$name => $min),* } }
            /// number of register operands read
            pub fn arity(self) -> usize { match self { $(Form::$name => $arity),* } }
            pub fn op(self) -> Op { match self { $(Form::$name => Op::$op),* } }
            pub fn name(self) -> &'static str { match self { $(Form::$name => stringify!($name)),* } }
        }
    };
}

#[derive(Clone, Copy, Debug, PartialEq, Eq)]
pub enum Op {
    Add,
    Sub,
    Neg,
    Dbl,
    Sum3,
    Sum2,
    Sum1,
    Sum0,
    /// a + b + c + a + b + ... : n summands taken cyclically from the three operands
    SumLong33,
    SumLong70,
    SumLong100,
    /// a - a through one aliased reference
    Zero,
}

forms! {
    // Element (op) Element
    AddRefRef: true, true, 2, Add;
    AddValRef: true, true, 2, Add;
    AddRefVal: true, true, 2, Add;
    AddValVal: true, true, 2, Add;
    AddAssignRef: true, true, 2, Add;
    AddAssignVal: true, true, 2, Add;
    SubRefRef: true, true, 2, Sub;
    SubValRef: true, true, 2, Sub;
    SubRefVal: true, true, 2, Sub;
    SubValVal: true, true, 2, Sub;
    SubAssignRef: true, true, 2, Sub;
    SubAssignVal: true, true, 2, Sub;
    NegOp: true, true, 1, Neg;
    NegateMethod: true, false, 1, Neg;
    DoubleTrait: true, true, 1, Dbl;
    DoubleInPlace: true, false, 1, Dbl;
    // Element (op) AffinePoint and AffinePoint (op) Element   [ops/projective.rs]
    ElemAddAffRef: true, false, 2, Add;
    ElemAddAff: true, false, 2, Add;
    AffAddAffToElem: true, false, 2, Add;
    AffAddElem: true, false, 2, Add;
    AffAddElemRef: true, false, 2, Add;
    ElemAddAssignAffRef: true, false, 2, Add;
    ElemAddAssignAff: true, false, 2, Add;
    ElemSubAssignAffRef: true, false, 2, Sub;
    ElemSubAssignAff: true, false, 2, Sub;
    ElemSubAffRef: true, false, 2, Sub;
    ElemSubAff: true, false, 2, Sub;
    // AffinePoint (op) AffinePoint   [ops/affine.rs]
    AffRefAddAffRef: true, false, 2, Add;
    AffAddAffRef: true, false, 2, Add;
    AffRefAddAff: true, false, 2, Add;
    AffAddAssignRef: true, false, 2, Add;
    AffAddAssignVal: true, false, 2, Add;
    AffRefSubAffRef: true, false, 2, Sub;
    AffSubAffRef: true, false, 2, Sub;
    AffRefSubAff: true, false, 2, Sub;
    AffSubAff: true, false, 2, Sub;
    AffSubAssignRef: true, false, 2, Sub;
    AffSubAssignVal: true, false, 2, Sub;
    AffNeg: true, false, 1, Neg;
    // sums over iterators
    SumOwned3: true, false, 3, Sum3;
    SumRef3: true, false, 3, Sum3;
    SumAffOwned3: true, false, 3, Sum3;
    SumAffRef3: true, false, 3, Sum3;
    SumOwned2: true, false, 2, Sum2;
    SumAffRef2: true, false, 2, Sum2;
    SumRef1: true, false, 1, Sum1;
    SumAffOwned1: true, false, 1, Sum1;
    SumOwned0: true, false, 0, Sum0;
    SumAffRef0: true, false, 0, Sum0;
    // sums over iterators whose size_hint lower bound is 0 (filter, take_while, from_fn, flatten, chain)
    SumOwnedFilter3: true, false, 3, Sum3;
    SumRefFilter2: true, false, 2, Sum2;
    SumOwnedFromFn3: true, false, 3, Sum3;
    SumRefTakeWhile1: true, false, 1, Sum1;
    SumRefChainRev3: true, false, 3, Sum3;
    SumAffOwnedFlatten2: true, false, 2, Sum2;
    SumAffRefFilter3: true, false, 3, Sum3;
    SumAffOwnedFromFn1: true, false, 1, Sum1;
    // sums with more summands than any internal batch size
    SumOwnedLong33: true, false, 3, SumLong33;
    SumRefLong70: true, false, 3, SumLong70;
    SumAffOwnedLong33: true, false, 3, SumLong33;
    SumAffRefLong100: true, false, 3, SumLong100;
    // both operands are the same object (one reference used twice)
    AddRefRefAliased: true, true, 1, Dbl;
    SubRefRefAliased: true, true, 1, Zero;
    AffRefAddAffRefAliased: true, false, 1, Dbl;
    AffRefSubAffRefAliased: true, false, 1, Zero;
    // arkworks group traits
    ZeroPlus: true, false, 1, Sum1;
    AffIntoGroupAdd: true, false, 2, Add;
    AffAddGroupTrait: true, false, 2, Add;
}

pub fn forms_of(bk: Bk) -> Vec<Form> {
    ALL_FORMS.iter().copied().filter(|f| match bk { Bk::Ark => f.in_ark(), Bk::Min => f.in_min() }).collect()
}

type AE = ark::Element;
type AA = <ark::Element as ark_ec::CurveGroup>::Affine;

pub fn apply_ark(f: Form, a: AE, b: AE, c: AE) -> AE {
    use ark_ec::{AffineRepr, CurveGroup, Group};
    use ark_std::Zero;
    let aff = |e: AE| -> AA { e.into_affine() };
    match f {
        Form::AddRefRef => &a + &b,
        Form::AddValRef => a + &b,
        Form::AddRefVal => &a + b,
        Form::AddValVal => a + b,
        Form::AddAssignRef => {
            let mut x = a;
            x += &b;
            x
        }
        Form::AddAssignVal => {
            let mut x = a;
            x += b;
            x
        }
        Form::SubRefRef => &a - &b,
        Form::SubValRef => a - &b,
        Form::SubRefVal => &a - b,
        Form::SubValVal => a - b,
        Form::SubAssignRef => {
            let mut x = a;
            x -= &b;
            x
        }
        Form::SubAssignVal => {
            let mut x = a;
            x -= b;
            x
        }
        Form::NegOp => -a,
        Form::NegateMethod => a.negate(),
        Form::DoubleTrait => a.double(),
        Form::DoubleInPlace => {
            let mut x = a;
            x.double_in_place();
            x
        }
        Form::ElemAddAffRef => a + &aff(b),
        Form::ElemAddAff => a + aff(b),
        Form::AffAddAffToElem => aff(a) + aff(b),
        Form::AffAddElem => aff(a) + b,
        Form::AffAddElemRef => aff(a) + &b,
        Form::ElemAddAssignAffRef => {
            let mut x = a;
            x += &aff(b);
            x
        }
        Form::ElemAddAssignAff => {
            let mut x = a;
            x += aff(b);
            x
        }
        Form::ElemSubAssignAffRef => {
            let mut x = a;
            x -= &aff(b);
            x
        }
        Form::ElemSubAssignAff => {
            let mut x = a;
            x -= aff(b);
            x
        }
        Form::ElemSubAffRef => a - &aff(b),
        Form::ElemSubAff => a - aff(b),
        Form::AffRefAddAffRef => (&aff(a) + &aff(b)).into(),
        Form::AffAddAffRef => aff(a) + &aff(b),
        Form::AffRefAddAff => (&aff(a) + aff(b)).into(),
        Form::AffAddAssignRef => {
            let mut x = aff(a);
            x += &aff(b);
            x.into()
        }
        Form::AffAddAssignVal => {
            let mut x = aff(a);
            x += aff(b);
            x.into()
        }
        Form::AffRefSubAffRef => (&aff(a) - &aff(b)).into(),
        Form::AffSubAffRef => (aff(a) - &aff(b)).into(),
        Form::AffRefSubAff => (&aff(a) - aff(b)).into(),
        Form::AffSubAff => (aff(a) - aff(b)).into(),
        Form::AffSubAssignRef => {
            let mut x = aff(a);
            x -= &aff(b);
            x.into()
        }
        Form::AffSubAssignVal => {
            let mut x = aff(a);
            x -= aff(b);
            x.into()
        }
        Form::AffNeg => (-aff(a)).into(),
        Form::SumOwned3 => vec![a, b, c].into_iter().sum(),
        Form::SumRef3 => [a, b, c].iter().sum(),
        Form::SumAffOwned3 => vec![aff(a), aff(b), aff(c)].into_iter().sum(),
        Form::SumAffRef3 => [aff(a), aff(b), aff(c)].iter().sum(),
        Form::SumOwned2 => vec![a, b].into_iter().sum(),
        Form::SumAffRef2 => [aff(a), aff(b)].iter().sum(),
        Form::SumRef1 => [a].iter().sum(),
        Form::SumAffOwned1 => vec![aff(a)].into_iter().sum(),
        Form::SumOwned0 => Vec::<AE>::new().into_iter().sum(),
        Form::SumAffRef0 => {
            let v: Vec<AA> = Vec::new();
            v.iter().sum()
        }
        Form::SumOwnedFilter3 => vec![a, b, c].into_iter().filter(|_| true).sum(),
        Form::SumRefFilter2 => [a, b].iter().filter(|_| true).sum(),
        Form::SumOwnedFromFn3 => {
            let mut v = vec![c, b, a];
            std::iter::from_fn(move || v.pop()).sum()
        }
        Form::SumRefTakeWhile1 => [a].iter().take_while(|_| true).sum(),
        Form::SumRefChainRev3 => [a].iter().filter(|_| true).chain([b, c].iter().rev()).sum(),
        Form::SumAffOwnedFlatten2 => vec![vec![aff(a)], vec![], vec![aff(b)]].into_iter().flatten().sum(),
        Form::SumAffRefFilter3 => [aff(a), aff(b), aff(c)].iter().filter(|_| true).sum(),
        Form::SumAffOwnedFromFn1 => {
            let mut v = vec![aff(a)];
            std::iter::from_fn(move || v.pop()).sum()
        }
        Form::SumOwnedLong33 => (0..33).map(|i| [a, b, c][i % 3]).collect::<Vec<AE>>().into_iter().sum(),
        Form::SumRefLong70 => (0..70).map(|i| [a, b, c][i % 3]).collect::<Vec<AE>>().iter().sum(),
        Form::SumAffOwnedLong33 => (0..33).map(|i| aff([a, b, c][i % 3])).collect::<Vec<AA>>().into_iter().sum(),
        Form::SumAffRefLong100 => (0..100).map(|i| aff([a, b, c][i % 3])).collect::<Vec<AA>>().iter().sum(),
        Form::AddRefRefAliased => {
            let r = &a;
            r + r
        }
        Form::SubRefRefAliased => {
            let r = &a;
            r - r
        }
        Form::AffRefAddAffRefAliased => {
            let x = aff(a);
            let r = &x;
            (r + r).into()
        }
        Form::AffRefSubAffRefAliased => {
            let x = aff(a);
            let r = &x;
            (r - r).into()
        }
        Form::ZeroPlus => AE::zero() + a,
        Form::AffIntoGroupAdd => aff(a).into_group() + aff(b).into_group(),
        Form::AffAddGroupTrait => {
            // the bound `Add<Self::Affine, Output = Self>` of CurveGroup, through the trait
            fn add_affine<G: CurveGroup>(g: G, a: G::Affine) -> G {
                g + a
            }
            add_affine(a, aff(b))
        }
    }
}

pub fn apply_min(f: Form, a: min::Element, b: min::Element, _c: min::Element) -> min::Element {
    match f {
        Form::AddRefRef => &a + &b,
        Form::AddValRef => a + &b,
        Form::AddRefVal => &a + b,
        Form::AddValVal => a + b,
        Form::AddAssignRef => {
            let mut x = a;
            x += &b;
            x
        }
        Form::AddAssignVal => {
            let mut x = a;
            x += b;
            x
        }
        Form::SubRefRef => &a - &b,
        Form::SubValRef => a - &b,
        Form::SubRefVal => &a - b,
        Form::SubValVal => a - b,
        Form::SubAssignRef => {
            let mut x = a;
            x -= &b;
            x
        }
        Form::SubAssignVal => {
            let mut x = a;
            x -= b;
            x
        }
        Form::AddRefRefAliased => {
            let r = &a;
            r + r
        }
        Form::SubRefRefAliased => {
            let r = &a;
            r - r
        }
        Form::NegOp => -a,
        Form::DoubleTrait => a.double(),
        other => panic!("form {other:?} does not exist in the minimal configuration"),
    }
}

pub trait Apply: Backend {
    fn apply(f: Form, a: Self::E, b: Self::E, c: Self::E) -> Self::E;
}
impl Apply for Ark {
    fn apply(f: Form, a: Self::E, b: Self::E, c: Self::E) -> Self::E {
        apply_ark(f, a, b, c)
    }
}
impl Apply for Min {
    fn apply(f: Form, a: Self::E, b: Self::E, c: Self::E) -> Self::E {
        apply_min(f, a, b, c)
    }
}

pub fn model_apply(op: Op, a: &Pt, b: &Pt, c3: &Pt) -> Pt {
    let c = &*CURVE;
    match op {
        Op::Add => c.add(a, b),
        Op::Sub => c.sub(a, b),
        Op::Neg => c.neg(a),
        Op::Dbl => c.dbl(a),
        Op::Sum3 => c.add(&c.add(a, b), c3),
        Op::Sum2 => c.add(a, b),
        Op::Sum1 => a.clone(),
        Op::Sum0 => c.identity(),
        Op::Zero => c.sub(a, a),
        Op::SumLong33 | Op::SumLong70 | Op::SumLong100 => {
            let n = match op { Op::SumLong33 => 33, Op::SumLong70 => 70, _ => 100 };
            let mut acc = c.identity();
            for i in 0..n {
                acc = c.add(&acc, [a, b, c3][i % 3]);
            }
            acc
        }
    }
}

#[derive(Clone, Debug, Serialize, Deserialize, PartialEq, Eq, Hash)]
pub struct Instr {
    pub dst: u8,
    pub form: Form,
    pub a: u8,
    pub b: u8,
    pub c: u8,
}

#[derive(Clone, Debug, Serialize, Deserialize)]
pub enum Case {
    Program { bk: Bk, regs: Vec<Recipe>, prog: Vec<Instr> },
    /// model-independent laws on three elements, through the library's own equality
    Laws { bk: Bk, p: Recipe, q: Recipe, r: Recipe, f_add: Form, f_sub: Form },
}

fn run_program<B: Apply>(regs: &[Recipe], prog: &[Instr], ctx: &mut Ctx) -> Result<(), Failure> {
    let c = &*CURVE;
    let mut mr: Vec<Pt> = Vec::new();
    let mut lr: Vec<B::E> = Vec::new();
    for r in regs {
        let m = r.model();
        let e = r.lib::<B>(&m);
        if let Err(why) = judge_fast::<B>(&e, &m.pt) {
            return ctx.report(format!("C04|{}|register-init", B::NAME), format!("register initialisation {r:?}: {why}"));
        }
        mr.push(m.pt);
        lr.push(e);
    }
    while mr.len() < NREG {
        mr.push(c.identity());
        lr.push(B::identity());
    }
    for (i, ins) in prog.iter().enumerate() {
        let (a, b, c3, d) = (ins.a as usize % NREG, ins.b as usize % NREG, ins.c as usize % NREG, ins.dst as usize % NREG);
        let op = ins.form.op();
        ctx.class(&format!("{}:{}", B::NAME, ins.form.name()));
        ctx.sub_eval();
        if ins.form.arity() >= 2 && !c.is_identity_element(&mr[a]) && !c.is_identity_element(&mr[b]) && !c.same_element(&mr[a], &mr[b]) {
            ctx.nontrivial();
        }
        let want = model_apply(op, &mr[a], &mr[b], &mr[c3]);
        let got = B::apply(ins.form, lr[a], lr[b], lr[c3]);
        if let Err(why) = judge_fast::<B>(&got, &want) {
            ctx.report(
                format!("C04|{}:{}|wrong-result", B::NAME, ins.form.name()),
                format!("instruction {i} ({:?} on registers {a},{b},{c3}): {why}", ins.form),
            )?;
            // keep the model in step with what the library now holds is impossible: stop here
            return Ok(());
        }
        mr[d] = want;
        lr[d] = got;
    }
    Ok(())
}

fn laws<B: Apply>(p: &Recipe, q: &Recipe, r: &Recipe, fa: Form, fs: Form, ctx: &mut Ctx) -> Result<(), Failure> {
    let (mp, mq, mr_) = (p.model(), q.model(), r.model());
    let (ep, eq, er) = (p.lib::<B>(&mp), q.lib::<B>(&mq), r.lib::<B>(&mr_));
    let id = B::identity();
    let add = |x: B::E, y: B::E| B::apply(fa, x, y, id);
    let sub = |x: B::E, y: B::E| B::apply(fs, x, y, id);
    ctx.class(&format!("{}:laws:{}", B::NAME, fa.name()));
    ctx.class(&format!("{}:laws:{}", B::NAME, fs.name()));
    ctx.nontrivial();
    let sig = |law: &str| format!("C04|{}:{}/{}|law-{}", B::NAME, fa.name(), fs.name(), law);
    if !B::eq(&add(ep, id), &ep) || !B::eq(&add(id, ep), &ep) {
        ctx.report(sig("identity-neutral"), "P + 0 != P or 0 + P != P")?;
    }
    if !B::is_identity(&sub(ep, ep)) || !B::eq(&sub(ep, ep), &id) {
        ctx.report(sig("self-inverse"), "P - P is not the identity")?;
    }
    if !B::eq(&add(ep, eq), &add(eq, ep)) {
        ctx.report(sig("commutative"), "P + Q != Q + P")?;
    }
    if !B::eq(&add(add(ep, eq), er), &add(ep, add(eq, er))) {
        ctx.report(sig("associative"), "(P + Q) + R != P + (Q + R)")?;
    }
    if !B::eq(&sub(add(ep, eq), eq), &ep) {
        ctx.report(sig("add-sub"), "(P + Q) - Q != P")?;
    }
    if !B::eq(&add(ep, B::neg(&eq)), &sub(ep, eq)) {
        ctx.report(sig("sub-is-add-neg"), "P + (-Q) != P - Q")?;
    }
    Ok(())
}

fn instr(forms: Vec<Form>) -> impl Strategy<Value = Instr> {
    let n = forms.len();
    (0u8..NREG as u8, any::<u16>(), 0u8..NREG as u8, 0u8..NREG as u8, 0u8..NREG as u8).prop_map(move |(dst, fi, a, b, c)| Instr { dst, form: forms[pick(fi, n)], a, b, c })
}

fn binary_forms(bk: Bk, op: Op) -> Vec<Form> {
    forms_of(bk).into_iter().filter(|f| f.op() == op && f.arity() == 2).collect()
}

fn program(bk: Bk, max_len: usize) -> BoxedStrategy<Case> {
    (proptest::collection::vec(recipe::recipe_small(), 2..=4), proptest::collection::vec(instr(forms_of(bk)), 1..=max_len))
        .prop_map(move |(regs, prog)| Case::Program { bk, regs, prog })
        .boxed()
}

fn laws_case(bk: Bk) -> BoxedStrategy<Case> {
    let fa = binary_forms(bk, Op::Add);
    let fs = binary_forms(bk, Op::Sub);
    (recipe::recipe_small(), recipe::recipe_small(), recipe::recipe_small(), any::<u16>(), any::<u16>())
        .prop_map(move |(p, q, r, i, j)| Case::Laws { bk, p, q, r, f_add: fa[pick(i, fa.len())], f_sub: fs[pick(j, fs.len())] })
        .boxed()
}

impl Property for C04 {
    type Case = Case;
    const ID: &'static str = "C04";
    fn rule(&self) -> String {
        "cases: straight-line programs (1..=14 instructions over 5 registers initialised from element recipes) mixing every operator form of the \
         configuration (69 ark forms: owned/borrowed, assign, mixed affine/projective, Sum over 4 iterator kinds with exact and with zero size hints, negate, double; 14 min forms); \
         after every instruction the destination's hook coordinates must denote the model's affine-group-law result (either coset point, on the \
         curve, Z != 0, T*Z = X*Y); plus law cases (neutral, P-P, commutative, associative, (P+Q)-Q, P+(-Q)) through the library's equality for \
         every binary form. Non-trivial: a binary instruction on two distinct non-identity elements, or a law case; distinct by digest"
            .into()
    }
    fn assumptions(&self) -> Vec<String> {
        vec!["model: unified affine twisted-Edwards addition with divisions (complete: a square, d non-square, asserted at start-up)".into()]
    }
    fn cases(&self, tier: Tier) -> u64 {
        tier.pick(14_000, 700_000)
    }
    fn strategy(&self, tier: Tier) -> BoxedStrategy<Case> {
        let max_len = tier.pick(14, 40) as usize;
        prop_oneof![
            10 => program(Bk::Ark, max_len),
            2 => program(Bk::Min, max_len),
            3 => laws_case(Bk::Ark),
            1 => laws_case(Bk::Min),
        ]
        .boxed()
    }
    fn edges(&self, _tier: Tier) -> Vec<Case> {
        use Recipe::*;
        let g = || Box::new(Generator);
        let pairs: Vec<(Recipe, Recipe)> = vec![
            (MulGen(5u64.into()), MulGen(7u64.into())),
            (Generator, Neg(g())),
            (Generator, Generator),
            (Generator, Identity),
            (Identity, Generator),
            (Torsion(Box::new(Identity)), Generator),
            (Generator, Torsion(g())),
            (MinusOneTimes(g()), Generator),
            (Identity, Identity),
        ];
        let mut v = Vec::new();
        for bk in [Bk::Ark, Bk::Min] {
            for f in forms_of(bk) {
                for (x, y) in &pairs {
                    v.push(Case::Program { bk, regs: vec![x.clone(), y.clone(), MulGen(3u64.into())], prog: vec![Instr { dst: 3, form: f, a: 0, b: 1, c: 2 }] });
                }
            }
            // operands related to each other: the same element / its inverse in every representative
            let bases = [MulGen(5u64.into()), Elligator(3u64.into()), ReDecode(Box::new(Neg(Box::new(MulGen(9u64.into()))))), Generator];
            for base in &bases {
                let b = || Box::new(base.clone());
                let related = [
                    base.clone(),
                    Neg(b()),
                    Torsion(b()),
                    Torsion(Box::new(Neg(b()))),
                    ReDecode(Box::new(Neg(b()))),
                    ReDecode(b()),
                    AffineRoundTrip(Box::new(Torsion(Box::new(Neg(b()))))),
                    Double(b()),
                    MinusOneTimes(b()),
                ];
                for rel in &related {
                    for f in forms_of(bk) {
                        if f.arity() != 2 {
                            continue;
                        }
                        v.push(Case::Program { bk, regs: vec![base.clone(), rel.clone()], prog: vec![Instr { dst: 2, form: f, a: 0, b: 1, c: 0 }] });
                        v.push(Case::Program { bk, regs: vec![base.clone(), rel.clone()], prog: vec![Instr { dst: 2, form: f, a: 1, b: 0, c: 0 }] });
                    }
                }
            }
            for fa in binary_forms(bk, Op::Add) {
                for fs in binary_forms(bk, Op::Sub) {
                    v.push(Case::Laws { bk, p: MulGen(5u64.into()), q: Elligator(2u64.into()), r: Torsion(g()), f_add: fa, f_sub: fs });
                }
            }
        }
        let _ = backend;
        v
    }
    fn check(&self, case: &Case, ctx: &mut Ctx) -> Result<(), Failure> {
        match case {
            Case::Program { bk, regs, prog } => {
                for i in prog {
                    let ok = match bk {
                        Bk::Ark => i.form.in_ark(),
                        Bk::Min => i.form.in_min(),
                    };
                    if !ok {
                        ctx.excluded();
                        return Ok(());
                    }
                }
                match bk {
                    Bk::Ark => run_program::<Ark>(regs, prog, ctx),
                    Bk::Min => run_program::<Min>(regs, prog, ctx),
                }
            }
            Case::Laws { bk, p, q, r, f_add, f_sub } => match bk {
                Bk::Ark => laws::<Ark>(p, q, r, *f_add, *f_sub, ctx),
                Bk::Min => {
                    if !f_add.in_min() || !f_sub.in_min() {
                        ctx.excluded();
                        return Ok(());
                    }
                    laws::<Min>(p, q, r, *f_add, *f_sub, ctx)
                }
            },
        }
    }
    fn shrink_candidates(&self, case: &Case) -> Vec<Case> {
        let mut v = Vec::new();
        match case {
            Case::Program { bk, regs, prog } => {
                for i in 0..prog.len() {
                    let mut p = prog.clone();
                    p.remove(i);
                    v.push(Case::Program { bk: *bk, regs: regs.clone(), prog: p });
                }
                for (i, r) in regs.iter().enumerate() {
                    for s in r.shrinks() {
                        let mut rs = regs.clone();
                        rs[i] = s;
                        v.push(Case::Program { bk: *bk, regs: rs, prog: prog.clone() });
                    }
                }
            }
            Case::Laws { bk, p, q, r, f_add, f_sub } => {
                for s in p.shrinks() {
                    v.push(Case::Laws { bk: *bk, p: s, q: q.clone(), r: r.clone(), f_add: *f_add, f_sub: *f_sub });
                }
                for s in q.shrinks() {
                    v.push(Case::Laws { bk: *bk, p: p.clone(), q: s, r: r.clone(), f_add: *f_add, f_sub: *f_sub });
                }
                for s in r.shrinks() {
                    v.push(Case::Laws { bk: *bk, p: p.clone(), q: q.clone(), r: s, f_add: *f_add, f_sub: *f_sub });
                }
            }
        }
        v
    }
    fn required_classes(&self, _tier: Tier) -> Vec<String> {
        let mut v = Vec::new();
        for f in forms_of(Bk::Ark) {
            v.push(format!("ark:{}", f.name()));
        }
        for f in forms_of(Bk::Min) {
            v.push(format!("min:{}", f.name()));
        }
        v
    }
}
