//! C14 — R1CS gadgets are sound against adversarial prover hints (fault enumeration;
//! DESIGN §5/C14). The guarded hook ISQRT_HINT substitutes the out-of-circuit
//! inverse-square-root hint; `verif_from_affine_unchecked` offers arbitrary coordinates to
//! the witness allocation. Oracle: satisfied => (native accepts and outputs equal native).

use crate::api::{ark, arkf, Ark};
use crate::engine::{Ctx, Failure, Property, Tier};
use crate::gen::{self, Num};
use crate::pinned;
use crate::props::common::{pt_src, PtSrc};
use crate::r1cs_lang::{self as rl, native_of, new_cs, GOp, Machine, Mode, Run, StepOut, Via, AE};
use crate::recipe::{self, Recipe};
use crate::refmodel::{Pt, CURVE, N, Q};
use ark_ff::Field;
use ark_r1cs_std::prelude::*;
use ark_r1cs_std::R1CSVar;
use ark_relations::r1cs::ConstraintSynthesizer;
use decaf377::r1cs::fqvar_ext::verif_hooks::ISQRT_HINT;
use decaf377::r1cs::ElementVar;
use proptest::prelude::*;
use serde::{Deserialize, Serialize};
use std::cell::RefCell;
use std::panic::{catch_unwind, AssertUnwindSafe};
use std::rc::Rc;

pub struct C14;

type Fq = ark::Fq;

thread_local! {
    static FORGED: RefCell<Vec<(usize, String, crate::forge::Verdict)>> = RefCell::new(Vec::new());
    static BIT_FAULTS: RefCell<Vec<(usize, bool, Option<String>, Option<String>)>> = RefCell::new(Vec::new());
}

pub const KNOWN_DEN0: &str = "C14|isqrt-site|den=0|hint=(true,y),y^2=1";

#[derive(Clone, Copy, Debug, Serialize, Deserialize, PartialEq, Eq, Hash)]
pub enum FlagSel {
    Honest,
    True,
    False,
    Flip,
}
#[derive(Clone, Debug, Serialize, Deserialize, PartialEq, Eq, Hash)]
pub enum YSel {
    Honest,
    Neg,
    Zero,
    One,
    MinusOne,
    /// +-sqrt(1/den) when it exists
    SqrtInv(bool),
    /// +-sqrt(zeta/den) when it exists
    SqrtZetaInv(bool),
    /// honest y times a root of unity of order 2^k
    RootTimes(u8),
    Random(Num),
}
#[derive(Clone, Debug, Serialize, Deserialize, PartialEq, Eq, Hash)]
pub struct Subst {
    pub flag: FlagSel,
    pub y: YSel,
    /// None: every isqrt site of the synthesis; Some(k): only the k-th
    pub site: Option<u8>,
}
impl Subst {
    pub fn honest() -> Subst {
        Subst { flag: FlagSel::Honest, y: YSel::Honest, site: None }
    }
    pub fn name(&self) -> String {
        let y = match &self.y {
            YSel::SqrtInv(_) => "+-sqrt(1/den)".to_string(),
            YSel::SqrtZetaInv(_) => "+-sqrt(zeta/den)".to_string(),
            YSel::RootTimes(_) => "root-of-unity*y".to_string(),
            YSel::Random(_) => "random".to_string(),
            other => format!("{other:?}"),
        };
        format!("({:?},{y})", self.flag)
    }
}

#[derive(Clone, Debug)]
pub struct SiteLog {
    pub den_is_zero: bool,
    pub flag: bool,
    pub y_sq_is_one: bool,
    /// the substituted hint is the honest one up to the sign of y
    pub honest_up_to_sign: bool,
}

fn install(s: &Subst) -> Rc<RefCell<Vec<SiteLog>>> {
    let log: Rc<RefCell<Vec<SiteLog>>> = Rc::new(RefCell::new(Vec::new()));
    let l2 = log.clone();
    let s = s.clone();
    let mut counter = 0u32;
    let f = move |den: Fq, hf: bool, hy: Fq| -> (bool, Fq) {
        let k = counter;
        counter += 1;
        let active = s.site.map(|t| t as u32 == k).unwrap_or(true);
        let (flag, y) = if !active {
            (hf, hy)
        } else {
            let flag = match s.flag {
                FlagSel::Honest => hf,
                FlagSel::True => true,
                FlagSel::False => false,
                FlagSel::Flip => !hf,
            };
            let inv = den.inverse();
            let y = match &s.y {
                YSel::Honest => hy,
                YSel::Neg => -hy,
                YSel::Zero => Fq::ZERO,
                YSel::One => Fq::ONE,
                YSel::MinusOne => -Fq::ONE,
                YSel::SqrtInv(neg) => inv.and_then(|i| i.sqrt()).map(|r| if *neg { -r } else { r }).unwrap_or(hy),
                YSel::SqrtZetaInv(neg) => inv.and_then(|i| (i * ark::ZETA).sqrt()).map(|r| if *neg { -r } else { r }).unwrap_or(hy),
                YSel::RootTimes(k) => {
                    let g = arkf::fq(&Q.pow(&CURVE.zeta, &Q.trace));
                    let e = 1u64 << (47 - (*k as u32 % 48).min(47));
                    hy * g.pow([e])
                }
                YSel::Random(v) => arkf::fq(&(&v.0 % &Q.m)),
            };
            (flag, y)
        };
        l2.borrow_mut().push(SiteLog { den_is_zero: den == Fq::ZERO, flag, y_sq_is_one: y.square() == Fq::ONE, honest_up_to_sign: flag == hf && (y == hy || y == -hy) });
        (flag, y)
    };
    ISQRT_HINT.with(|h| *h.borrow_mut() = Some(Box::new(f)));
    log
}

fn uninstall() {
    ISQRT_HINT.with(|h| *h.borrow_mut() = None);
}

/// every dishonest site of this run is of the known class (den = 0, flag = true, y^2 = 1)
fn only_known_class(log: &[SiteLog]) -> bool {
    let dishonest: Vec<&SiteLog> = log.iter().filter(|s| !s.honest_up_to_sign).collect();
    !dishonest.is_empty() && dishonest.iter().all(|s| s.den_is_zero && s.flag && s.y_sq_is_one)
}

#[derive(Clone, Debug, Serialize, Deserialize, PartialEq, Eq, Hash)]
pub enum CoordKind {
    Valid(PtSrc),
    OtherRep(PtSrc),
    /// P + T4: on the curve, outside the group
    T4Shift(PtSrc),
    T4(bool),
    Origin,
    XAxis(Num),
    YAxis(Num),
    OffCurve(Num, Num),
    /// (l*x, l*y) for a valid point: same ratio x:y, not on the curve
    Scaled(PtSrc, Num),
}

/// parameters of the witness-forging fault family (see `crate::forge`)
#[derive(Clone, Copy, Debug, Serialize, Deserialize, PartialEq, Eq)]
pub struct Forge {
    pub seed: u64,
    /// number of (witness, value) targets per synthesis; all of them when the system is smaller
    pub max: u32,
}

#[derive(Clone, Debug, Serialize, Deserialize)]
pub enum Case {
    Hint {
        prog: Vec<GOp>,
        substs: Vec<Subst>,
        /// witness forging on top of the honest run and of the first few substituted runs
        #[serde(default)]
        forge: Option<Forge>,
    },
    Coords { kind: CoordKind, via_affine: bool, substs: Vec<Subst> },
    /// one of the seven pinned circuits with a false statement
    PinnedFalse { circuit: u8, a: Recipe, b: Recipe, x: Num, scalar: Num, wrong: Recipe, substs: Vec<Subst> },
    /// the decompression circuit fed an arbitrary witness encoding and an arbitrary public point
    DecompressRaw { s: Num, point: Recipe, substs: Vec<Subst> },
}

fn coords_of(kind: &CoordKind) -> Pt {
    let c = &*CURVE;
    let f = &*Q;
    let i = f.sqrt(&f.neg(&N::from(1u32))).expect("-1 is a square");
    let t4 = Pt { x: i.clone(), y: N::from(0u32) };
    match kind {
        CoordKind::Valid(s) => s.point(),
        CoordKind::OtherRep(s) => c.other_rep(&s.point()),
        CoordKind::T4Shift(s) => c.add(&s.point(), &t4),
        CoordKind::T4(neg) => {
            if *neg {
                Pt { x: f.neg(&i), y: N::from(0u32) }
            } else {
                t4
            }
        }
        CoordKind::Origin => Pt { x: N::from(0u32), y: N::from(0u32) },
        CoordKind::XAxis(x) => Pt { x: &x.0 % &f.m, y: N::from(0u32) },
        CoordKind::YAxis(y) => Pt { x: N::from(0u32), y: &y.0 % &f.m },
        CoordKind::OffCurve(x, y) => Pt { x: &x.0 % &f.m, y: &y.0 % &f.m },
        CoordKind::Scaled(s, l) => {
            let p = s.point();
            let l = &l.0 % &f.m;
            Pt { x: f.mul(&p.x, &l), y: f.mul(&p.y, &l) }
        }
    }
}

fn kind_name(k: &CoordKind) -> &'static str {
    match k {
        CoordKind::Valid(_) => "valid",
        CoordKind::OtherRep(_) => "other-representative",
        CoordKind::T4Shift(_) => "P+T4(out-of-group)",
        CoordKind::T4(_) => "4-torsion",
        CoordKind::Origin => "(0,0)",
        CoordKind::XAxis(_) => "(x,0)",
        CoordKind::YAxis(_) => "(0,y)",
        CoordKind::OffCurve(..) => "off-curve",
        CoordKind::Scaled(..) => "scaled-valid(off-curve,same-ratio)",
    }
}

fn record(ctx: &mut Ctx, what: &str, s: &Subst, sat: bool, log: &[SiteLog]) {
    ctx.sub_eval();
    let reached = s.site.map(|k| (k as usize) < log.len()).unwrap_or(true);
    if !reached {
        // the targeted isqrt site does not exist in this synthesis: the run was effectively honest
        ctx.class("substitution-site-not-reached(effectively honest)");
    } else {
        ctx.class(&format!("{what}|{}|{}", s.name(), if sat { "sat" } else { "unsat" }));
    }
    let z = log.iter().filter(|l| l.den_is_zero).count() as u64;
    if z > 0 {
        ctx.class_n("den=0-sites-exercised", z);
    }
    ctx.class_n("isqrt-sites", log.len() as u64);
}

/// judge one adversarial synthesis: `wrong` describes a discrepancy (None = outputs equal native)
fn verdict(ctx: &mut Ctx, what: &str, s: &Subst, sat: bool, wrong: Option<String>, log: &[SiteLog]) -> Result<(), Failure> {
    record(ctx, what, s, sat, log);
    if !sat {
        if s == &Subst::honest() {
            // sanity of the hook itself: the honest prover must still be accepted (the caller decides when this applies)
        }
        return Ok(());
    }
    if let Some(why) = wrong {
        let sig = if only_known_class(log) { KNOWN_DEN0.to_string() } else { format!("C14|{what}|satisfied-but-wrong|{}", s.name()) };
        ctx.report(sig, format!("{what} with hint substitution {} at {:?}: constraint system satisfied although {why}", s.name(), s.site))?;
    }
    Ok(())
}

fn force_values(m: &Machine) -> Option<String> {
    // force every lazily evaluated representation *before* satisfaction is judged
    for (i, r) in m.ev.iter().enumerate() {
        if let Some(r) = r {
            if r.poisoned {
                // an undecodable lazy variable has no native value to compare with, and reading its
                // value would itself emit the decoding constraints and mask a gadget that forgot them
                continue;
            }
            let v = catch_unwind(AssertUnwindSafe(|| r.var.value()));
            match v {
                Ok(Ok(got)) => {
                    if let Err(why) = rl::elem_eq_exact(&got, &r.native) {
                        return Some(format!("element register {i}: {why}"));
                    }
                }
                Ok(Err(e)) => return Some(format!("element register {i}: value() error {e:?}")),
                Err(_) => return Some(format!("element register {i}: value() panicked (coordinates are not a curve point)")),
            }
        }
    }
    for (i, r) in m.fv.iter().enumerate() {
        if let Some(r) = r {
            match r.var.value() {
                Ok(got) if got == r.native || got == -r.native => {}
                Ok(got) => return Some(format!("field register {i}: {} but native {}", hex::encode(got.to_bytes()), hex::encode(r.native.to_bytes()))),
                Err(e) => return Some(format!("field register {i}: value() error {e:?}")),
            }
        }
    }
    for (what, var, native) in &m.bools {
        match var.value() {
            Ok(got) if got == *native => {}
            Ok(got) => return Some(format!("boolean output of {what}: gadget {got}, native {native}")),
            Err(e) => return Some(format!("boolean output of {what}: value() error {e:?}")),
        }
    }
    None
}

/// A second family of prover hints: the bit decompositions behind the sign tests. For every
/// run of 253 consecutive boolean witnesses that compose (little-endian) to an integer w with
/// w + q < 2^253, substitute the bits of w + q (the non-canonical decomposition of the same
/// field element; its parity is flipped because q is odd) and ask whether the system is still
/// satisfied. With the range check of `to_bits_le` in place it never is.
fn bit_decomposition_faults(m: &Machine) -> Vec<(usize, bool, Option<String>)> {
    let vals: Vec<Fq> = m.cs.borrow().map(|c| c.witness_assignment.clone()).unwrap_or_default();
    let n = vals.len();
    let is_bit = |v: &Fq| *v == Fq::ZERO || *v == Fq::ONE;
    let mut out = Vec::new();
    // every window of 253 consecutive boolean-valued witnesses (a decomposition allocates its bits
    // consecutively; neighbouring witnesses may happen to hold 0 or 1 as well, so windows slide)
    let mut run_start = 0usize;
    let mut i = 0usize;
    let mut windows: Vec<usize> = Vec::new();
    while i <= n {
        if i == n || !is_bit(&vals[i]) {
            if i - run_start >= 253 {
                let last = i - 253;
                // at most a handful of windows per run: both ends and, for long runs, a stride
                let mut w = run_start;
                while w <= last {
                    windows.push(w);
                    w += if last - run_start > 8 { ((last - run_start) / 4).max(1) } else { 1 };
                }
                if *windows.last().unwrap() != last {
                    windows.push(last);
                }
            }
            run_start = i + 1;
        }
        i += 1;
    }
    for i in windows {
        let mut w = N::from(0u32);
        for (k, b) in vals[i..i + 253].iter().enumerate() {
            if *b == Fq::ONE {
                w.set_bit(k as u64, true);
            }
        }
        let alt = &w + &Q.m;
        if w < Q.m && alt.bits() <= 253 {
            {
                let mut c = m.cs.borrow_mut().unwrap();
                for k in 0..253 {
                    c.witness_assignment[i + k] = if alt.bit(k as u64) { Fq::ONE } else { Fq::ZERO };
                }
            }
            let sat = m.satisfied();
            // Being satisfied is not yet a violation: the booleans may be free witnesses (the bits of
            // a scalar multiplying the identity, an allocated field value that happens to be 0 or 1).
            // What counts: a *sign-test output* now differs from the native result, or (judged by the
            // caller) an input that the native operation rejects is accepted.
            let wrong = if sat { bool_outputs_wrong(m) } else { None };
            {
                let mut c = m.cs.borrow_mut().unwrap();
                for k in 0..253 {
                    c.witness_assignment[i + k] = vals[i + k];
                }
            }
            out.push((i, sat, wrong));
        }
    }
    out
}

fn bool_outputs_wrong(m: &Machine) -> Option<String> {
    for (what, var, native) in &m.bools {
        match var.value() {
            Ok(got) if got == *native => {}
            Ok(got) => return Some(format!("boolean output of {what}: gadget {got}, native {native}")),
            Err(e) => return Some(format!("boolean output of {what}: value() error {e:?}")),
        }
    }
    None
}

/// the forging round of one finished synthesis: outcomes are (witness column, new value, verdict)
fn forge_round(m: &Machine, fg: Forge, base_sat: bool) -> Vec<(usize, String, crate::forge::Verdict)> {
    use crate::forge::{judge, targets, Sys, Verdict};
    let mut out = Vec::new();
    // reading a lazily held element forces its decoding: that must not meet the substituted hints
    uninstall();
    let mat = match m.materialize() {
        Some(mat) => mat,
        None => return out,
    };
    let sys = match Sys::extract(&m.cs) {
        Some(s) => s,
        None => return out,
    };
    if sys.first_unsatisfied(&sys.z).is_none() != base_sat {
        if std::env::var("VERIF_DEBUG_FORGE").is_ok() {
            eprintln!("FORGE-MISMATCH base_sat={base_sat} mine={:?} ncons={} expect_unsat={:?} cs_says={:?}", sys.first_unsatisfied(&sys.z), sys.a.len(), m.expect_unsat, m.cs.which_is_unsatisfied());
        }
        out.push((0, "-".into(), Verdict::Wrong("EVALUATOR-MISMATCH".into())));
        return out;
    }
    for (col, v) in targets(&sys, &mat, fg.seed, fg.max as usize) {
        let verdict = match sys.forge(col, v) {
            None => Verdict::Rejected,
            Some(z) => judge(&sys, &mat, &z, m.expect_unsat.as_deref()),
        };
        out.push((col, hex::encode(v.to_bytes()), verdict));
    }
    out
}

fn hint_case(prog: &[GOp], substs: &[Subst], forge: Option<Forge>, ctx: &mut Ctx) -> Result<(), Failure> {
    let gadgets: Vec<String> = prog.iter().filter(|o| !matches!(o, GOp::AllocElem { .. } | GOp::AllocFq { .. })).map(|o| o.name()).collect();
    let what = format!("program[{}]", gadgets.join(","));
    let what_short = gadgets.last().cloned().unwrap_or_else(|| prog.last().map(|o| o.name()).unwrap_or_default());
    let mut all = vec![Subst::honest()];
    all.extend(substs.iter().cloned());
    for (s_idx, s) in all.iter().enumerate() {
        let log = install(s);
        let r = catch_unwind(AssertUnwindSafe(|| -> Result<(bool, Option<String>), Failure> {
            let mut m = Machine::new(Run::Adversarial, false);
            let mut scratch = ctx.scratch();
            for op in prog {
                match m.step(op, &mut scratch) {
                    Ok(StepOut::NativeFails(_)) => break,
                    Ok(_) => {}
                    Err(f) if f.signature.ends_with("synthesis-error") && m.consuming_poison() => {
                        // no witness can be computed from an undecodable encoding: the prover is stuck
                        m.expect_unsat = Some("a gadget consumed an undecodable lazy variable and witness generation failed".into());
                        return Ok((false, Some("the native operation rejects the input (undecodable lazy variable)".to_string())));
                    }
                    Err(f) => return Err(f),
                }
            }
            let mut wrong = force_values(&m);
            if let Some(why) = &m.expect_unsat {
                wrong = Some(format!("the native operation rejects the input ({why})"));
            }
            let sat = m.satisfied();
            // bit-decomposition hints (only on top of otherwise honest hints)
            if s == &Subst::honest() {
                for (at, sat_alt, wrong_alt) in bit_decomposition_faults(&m) {
                    BIT_FAULTS.with(|b| b.borrow_mut().push((at, sat_alt, m.expect_unsat.clone(), wrong_alt)));
                }
            }
            // witness forging (last: it adds the materialising constraints to the system)
            if let Some(fg) = forge {
                if s_idx < 20 && !m.has_lazy {
                    let outcomes = forge_round(&m, fg, sat);
                    FORGED.with(|f| f.borrow_mut().extend(outcomes));
                }
            }
            Ok((sat, wrong))
        }));
        uninstall();
        let log = log.borrow().clone();
        let bit_faults: Vec<(usize, bool, Option<String>, Option<String>)> = BIT_FAULTS.with(|b| std::mem::take(&mut *b.borrow_mut()));
        let forged: Vec<(usize, String, crate::forge::Verdict)> = FORGED.with(|f| std::mem::take(&mut *f.borrow_mut()));
        let den0_site = log.iter().any(|l| l.den_is_zero);
        for (col, val, verdict) in forged {
            use crate::forge::Verdict;
            ctx.sub_eval();
            if std::env::var("VERIF_DEBUG_FORGE").is_ok() && verdict != Verdict::Rejected {
                eprintln!("FORGE-OUTCOME subst={} col={col} val={} verdict={verdict:?}", s.name(), &val[..8.min(val.len())]);
            }
            match verdict {
                Verdict::Rejected => ctx.class("forged-witness|rejected"),
                Verdict::SatisfiedHarmless => ctx.class("forged-witness|satisfied,observables-unchanged(free internal witness)"),
                Verdict::SatisfiedInputChanged => ctx.class("forged-witness|satisfied,free-input-changed(other statement)"),
                Verdict::Wrong(why) if why == "EVALUATOR-MISMATCH" => ctx.class("forged-witness|EVALUATOR-MISMATCH(harness)"),
                Verdict::Wrong(_) if den0_site => ctx.class("forged-witness|wrong-at-den=0-site(known finding class, excluded)"),
                Verdict::Wrong(why) => ctx.report(
                    format!("C14|{what_short}|forged-witness-accepted"),
                    format!("{what} with hint substitution {}: setting witness column {col} to {val} and re-deriving the later witnesses satisfies the system with unchanged inputs although {why}", s.name()),
                )?,
            }
        }
        for (at, sat_alt, rejected, wrong_alt) in bit_faults {
            ctx.sub_eval();
            ctx.class(&format!("bit-decomposition-fault|{}", if sat_alt { "sat" } else { "unsat" }));
            // the non-canonical decomposition flips the sign test: a satisfied system whose outputs
            // differ from native (or that accepts a natively rejected input) means the test can be forged
            if sat_alt {
                let why = match (&rejected, &wrong_alt) {
                    (Some(r), _) => Some(format!("the native operation rejects the input ({r})")),
                    (None, Some(w)) => Some(w.clone()),
                    (None, None) => None,
                };
                match why {
                    Some(why) => ctx.report(
                        format!("C14|{what_short}|non-canonical-bit-decomposition-accepted"),
                        format!("{what}: replacing the 253 bit witnesses at index {at} by the bits of value + q keeps the system satisfied although {why}"),
                    )?,
                    None => ctx.class("bit-decomposition-fault|sat-but-outputs-unchanged(free witness bits)"),
                }
            }
        }
        match r {
            Ok(Ok((sat, wrong))) => {
                if s == &Subst::honest() && !sat && wrong.is_none() {
                    // honest prover, natively valid program: must be satisfiable (hook sanity; C13 decides completeness)
                    return ctx.report(format!("C14|{what_short}|honest-unsatisfied"), format!("{what}: honest hints leave the system unsatisfied"));
                }
                verdict(ctx, &what_short, s, sat, wrong, &log)?;
            }
            Ok(Err(f)) => {
                // synthesis errors under dishonest hints (e.g. inverse of a zero witness) are rejections
                if s == &Subst::honest() {
                    return Err(f);
                }
                record(ctx, &what_short, s, false, &log);
            }
            Err(_) => {
                if s == &Subst::honest() {
                    return ctx.report(format!("C14|{what_short}|panic-honest"), format!("{what}: panic during honest synthesis"));
                }
                // a panic while *synthesising* with dishonest hints is a prover-side failure, not acceptance
                record(ctx, &what_short, s, false, &log);
            }
        }
    }
    Ok(())
}

fn coords_case(kind: &CoordKind, via_affine: bool, substs: &[Subst], ctx: &mut Ctx) -> Result<(), Failure> {
    use ark_ec::CurveGroup;
    let c = &*CURVE;
    let p = coords_of(kind);
    let valid = c.valid(&p);
    let what = format!("witness-coordinates:{}", kind_name(kind));
    ctx.class(&format!("coords:{}:{}", kind_name(kind), if valid { "valid" } else { "invalid" }));
    let offered = AE::verif_from_affine_unchecked(arkf::fq(&p.x), arkf::fq(&p.y));
    let mut all = vec![Subst::honest()];
    all.extend(substs.iter().cloned());
    for s in &all {
        let log = install(s);
        let r = catch_unwind(AssertUnwindSafe(|| -> Result<(bool, Option<String>), String> {
            let cs = new_cs(false);
            let var = if via_affine {
                // AffinePoint allocation goes through into_group(); build the affine value from the unchecked element
                <ElementVar as AllocVar<rl::AA, Fq>>::new_witness(cs.clone(), || Ok(rl::AA::from(offered)))
            } else {
                <ElementVar as AllocVar<AE, Fq>>::new_witness(cs.clone(), || Ok(offered))
            }
            .map_err(|e| format!("{e:?}"))?;
            let val = catch_unwind(AssertUnwindSafe(|| var.value()));
            let sat = cs.is_satisfied().unwrap_or(false);
            let wrong = if !valid {
                Some(format!("the offered coordinates ({:x}, {:x}) are not a valid representative of any group element", p.x, p.y))
            } else {
                match val {
                    Ok(Ok(v)) => crate::recipe::judge_fast::<Ark>(&v, &p).err().map(|w| format!("returned variable: {w}")),
                    Ok(Err(e)) => Some(format!("value() error {e:?}")),
                    Err(_) => Some("value() panicked".to_string()),
                }
            };
            Ok((sat, wrong))
        }));
        uninstall();
        let log = log.borrow().clone();
        match r {
            Ok(Ok((sat, wrong))) => {
                if s == &Subst::honest() && valid && !sat {
                    return ctx.report("C14|witness-coordinates|honest-unsatisfied", format!("{what}: honest witnessing of a valid representative is unsatisfied"));
                }
                verdict(ctx, &what, s, sat, wrong, &log)?;
            }
            Ok(Err(_)) | Err(_) => record(ctx, &what, s, false, &log),
        }
    }
    Ok(())
}

fn synth_pinned(circuit: pinned::Pinned) -> Result<bool, String> {
    let cs = new_cs(false);
    circuit.generate_constraints(cs.clone()).map_err(|e| format!("{e:?}"))?;
    Ok(cs.is_satisfied().unwrap_or(false))
}

fn scalar_bytes(n: &N) -> [u8; 32] {
    let mut sb = n.to_bytes_le();
    sb.resize(32, 0);
    let mut sc = [0u8; 32];
    sc.copy_from_slice(&sb[..32]);
    sc
}

fn pinned_false(i: usize, a: &Recipe, b: &Recipe, x: &N, scalar: &N, wrong: &Recipe, substs: &[Subst], ctx: &mut Ctx) -> Result<(), Failure> {
    use ark_relations::r1cs::ToConstraintField;
    let (ea, eb, ew) = (native_of(a), native_of(b), native_of(wrong));
    let fx = arkf::fq(&(x % &Q.m));
    let sc = scalar_bytes(scalar);
    let name = pinned::NAMES[i];
    if i == 4 {
        // the public-element-input circuit has no statement beyond the input itself
        ctx.excluded();
        return Ok(());
    }
    let (_, honest_public) = pinned::honest(i, ea, eb, fx, sc);
    let wrong_fq = ew.vartime_compress_to_field();
    // the "wrong" statement must really differ from the true one
    let truth_last = *honest_public.last().unwrap();
    if wrong_fq == truth_last || (i == 1 && wrong_fq == honest_public[0]) {
        ctx.excluded();
        return Ok(());
    }
    let what = format!("pinned:{name}(false statement)");
    let mut all = vec![Subst::honest()];
    all.extend(substs.iter().cloned());
    for s in &all {
        let log = install(s);
        let circuit = pinned::with_statement(i, ea, eb, fx, sc, ew, wrong_fq);
        let r = catch_unwind(AssertUnwindSafe(|| synth_pinned(circuit)));
        uninstall();
        let log = log.borrow().clone();
        match r {
            Ok(Ok(sat)) => verdict(ctx, &what, s, sat, Some("the public statement is false".to_string()), &log)?,
            _ => record(ctx, &what, s, false, &log),
        }
    }
    let _ = ew.to_field_elements();
    Ok(())
}

fn decompress_raw(s_in: &N, point: &Recipe, substs: &[Subst], ctx: &mut Ctx) -> Result<(), Failure> {
    let s_fq = arkf::fq(&(s_in % &Q.m));
    let ep = native_of(point);
    let native = ark::Encoding(s_fq.to_bytes()).vartime_decompress();
    let truth = match &native {
        Ok(e) => *e == ep,
        Err(_) => false,
    };
    ctx.class(&format!("decompress-raw:{}", if native.is_ok() { "valid-encoding" } else { "invalid-encoding" }));
    let what = "pinned:decompression(raw witness)".to_string();
    let mut all = vec![Subst::honest()];
    all.extend(substs.iter().cloned());
    for s in &all {
        let log = install(s);
        let circuit = pinned::decompression_raw(s_fq, ep);
        let r = catch_unwind(AssertUnwindSafe(|| synth_pinned(circuit)));
        uninstall();
        let log = log.borrow().clone();
        match r {
            Ok(Ok(sat)) => {
                let wrong = if truth { None } else if native.is_err() { Some(format!("the native decoder rejects the encoding {}", hex::encode(s_fq.to_bytes()))) } else { Some("the public point is not the decoded element".to_string()) };
                if s == &Subst::honest() && truth && !sat {
                    return ctx.report("C14|pinned:decompression|honest-unsatisfied", "true statement with honest hints is unsatisfied".to_string());
                }
                verdict(ctx, &what, s, sat, wrong, &log)?;
            }
            _ => record(ctx, &what, s, false, &log),
        }
    }
    Ok(())
}

/// the enumerated substitution set: every (flag, y) able to satisfy any single case equation
pub fn enumerated_substs(site: Option<u8>) -> Vec<Subst> {
    let mut v = Vec::new();
    for flag in [FlagSel::Honest, FlagSel::True, FlagSel::False, FlagSel::Flip] {
        for y in [
            YSel::Honest,
            YSel::Neg,
            YSel::Zero,
            YSel::One,
            YSel::MinusOne,
            YSel::SqrtInv(false),
            YSel::SqrtInv(true),
            YSel::SqrtZetaInv(false),
            YSel::SqrtZetaInv(true),
            YSel::RootTimes(1),
            YSel::RootTimes(2),
            YSel::RootTimes(47),
        ] {
            if flag == FlagSel::Honest && y == YSel::Honest {
                continue;
            }
            v.push(Subst { flag, y, site });
        }
    }
    v
}

fn subst() -> BoxedStrategy<Subst> {
    let flag = prop_oneof![Just(FlagSel::Honest), Just(FlagSel::True), Just(FlagSel::False), Just(FlagSel::Flip)];
    let y = prop_oneof![
        1 => Just(YSel::Honest),
        2 => Just(YSel::Neg),
        2 => Just(YSel::Zero),
        2 => Just(YSel::One),
        2 => Just(YSel::MinusOne),
        3 => any::<bool>().prop_map(YSel::SqrtInv),
        3 => any::<bool>().prop_map(YSel::SqrtZetaInv),
        2 => (0u8..48).prop_map(YSel::RootTimes),
        2 => gen::fq().prop_map(YSel::Random),
    ];
    (flag, y, proptest::option::weighted(0.6, 0u8..4)).prop_map(|(flag, y, site)| Subst { flag, y, site }).boxed()
}

fn coord_kind() -> BoxedStrategy<CoordKind> {
    prop_oneof![
        2 => pt_src().prop_map(CoordKind::Valid),
        2 => pt_src().prop_map(CoordKind::OtherRep),
        3 => pt_src().prop_map(CoordKind::T4Shift),
        1 => any::<bool>().prop_map(CoordKind::T4),
        1 => Just(CoordKind::Origin),
        1 => gen::fq().prop_map(CoordKind::XAxis),
        2 => gen::fq().prop_map(CoordKind::YAxis),
        2 => (gen::fq(), gen::fq()).prop_map(|(x, y)| CoordKind::OffCurve(x, y)),
        3 => (pt_src(), gen::fq()).prop_map(|(s, l)| CoordKind::Scaled(s, l)),
    ]
    .boxed()
}

/// gadget instances weighted so that den = 0 occurs at every kind of isqrt site
fn hint_program() -> BoxedStrategy<Vec<GOp>> {
    let e_src = prop_oneof![2 => recipe::recipe_small(), 1 => Just(Recipe::Identity), 1 => Just(Recipe::Torsion(Box::new(Recipe::Identity)))];
    let f_src = prop_oneof![3 => rl::fq_input(), 1 => Just(Num(&Q.m - 1u32)), 1 => Just(Num(N::from(1u32))), 1 => Just(Num(N::from(0u32)))];
    prop_oneof![
        // stand-alone isqrt
        3 => (f_src.clone(), any::<bool>()).prop_map(|(v, inp)| vec![GOp::AllocFq { dst: 0, val: v, mode: if inp { Mode::Input } else { Mode::Witness } }, GOp::Isqrt { dst: 1, f: 0 }]),
        // compress
        3 => (e_src.clone(), any::<bool>()).prop_map(|(r, inp)| vec![GOp::AllocElem { dst: 0, src: r, mode: if inp { Mode::Input } else { Mode::Witness }, via: Via::Element }, GOp::Compress { dst: 0, e: 0 }]),
        // decompress
        4 => (f_src.clone(), any::<bool>()).prop_map(|(v, inp)| vec![GOp::AllocFq { dst: 0, val: v, mode: if inp { Mode::Input } else { Mode::Witness } }, GOp::Decompress { dst: 0, f: 0 }]),
        // Elligator
        3 => (f_src, any::<bool>()).prop_map(|(v, inp)| vec![GOp::AllocFq { dst: 0, val: v, mode: if inp { Mode::Input } else { Mode::Witness } }, GOp::Elligator { dst: 0, f: 0 }, GOp::Compress { dst: 1, e: 0 }]),
        // witness allocation of an element; new_input followed by forcing the element
        2 => e_src.clone().prop_map(|r| vec![GOp::AllocElem { dst: 0, src: r, mode: Mode::Witness, via: Via::Element }]),
        2 => e_src.prop_map(|r| vec![GOp::AllocElem { dst: 0, src: r, mode: Mode::Input, via: Via::Element }, GOp::Negate { dst: 1, a: 0 }]),
        // lazily allocated (possibly undecodable) operands that meet only in an equality / selection gadget
        3 => (rl::fq_input(), rl::fq_input(), any::<bool>(), 0u8..9).prop_map(|(a, b, same, g)| {
            let b = if same { a.clone() } else { b };
            let mut p = vec![GOp::AllocLazy { dst: 0, val: a, mode: Mode::Witness }, GOp::AllocLazy { dst: 1, val: b, mode: Mode::Input }];
            p.push(match g {
                0 => GOp::EnforceEqual { a: 0, b: 1 },
                1 => GOp::IsEq { a: 0, b: 1 },
                2 => GOp::CondEnforceEqual { a: 0, b: 1, cond: true },
                3 => GOp::CondSelect { dst: 2, cond: true, a: 0, b: 1 },
                4 => GOp::CondSelect { dst: 2, cond: false, a: 0, b: 1 },
                5 => GOp::CondSelectConst { dst: 2, cond: true, a: 0, b: 1 },
                6 => GOp::CondSelectConst { dst: 2, cond: false, a: 0, b: 1 },
                7 => GOp::CondEnforceEqualConst { a: 0, b: 1, cond: true },
                _ => GOp::EnforceNotEqual { a: 0, b: 1 },
            });
            p
        }),
        // composed programs
        2 => rl::program(4),
    ]
    .boxed()
}

impl Property for C14 {
    type Case = Case;
    const ID: &'static str = "C14";
    const LEVEL: &'static str = "fault_enumeration";
    fn rule(&self) -> String {
        "fault space = gadget instance x input x hint substitution. Gadget instances: stand-alone isqrt, compress_to_field, decompress_from_field, \
         encode_to_curve, witness allocation, new_input + forcing, composed gadget programs, the pinned circuits of tests/groth16_gadgets.rs with a \
         false statement, and the decompression circuit with an arbitrary witness encoding; inputs weighted so that den = 0 occurs at every kind of \
         isqrt site (identity for encode, s = +-1 for decode). Substitutions through the guarded ISQRT_HINT hook at one site or at all sites: flag in \
         {honest, true, false, flipped} x y in {honest, -y, 0, +-1, +-sqrt(1/den), +-sqrt(zeta/den), y times a 2-power root of unity, random} (the \
         enumerated set contains every (flag, y) able to satisfy any single case equation; the edge list applies all 47 of them to every gadget \
         instance). A second hint family needs no hook: after an honest synthesis every run of 253 boolean witnesses (a bit decomposition behind a sign test) is replaced by the bits of value + q (non-canonical decomposition, flipped parity) directly in the witness assignment. A third family attacks every witness, not only the hints: the finished system is extracted as matrices, one witness variable (all of them for the small gadget instances, a seeded sample otherwise) is set to another value (booleans flipped; otherwise -v, v+1, 0, 1), the witnesses allocated after it are re-derived by constraint propagation (single later unknown solved linearly, several later booleans solved as a bit decomposition), on the honest run and on the first substituted runs; a forgery that satisfies the whole system with every free input unchanged must leave every observable output equal to native. Coordinate faults through verif_from_affine_unchecked: off-curve pairs, P+T4, 4-torsion, (0,0), (x,0), (0,y), scaled valid points. \
         Oracle: satisfied => native accepts the input and every output equals the native output (for offered coordinates: they are a valid \
         representative and the returned variable denotes it). Non-trivial: a dishonest substitution or invalid coordinates on a non-constant input; \
         distinct by digest. Evidence: gadget x substitution x {sat, unsat} in `classes`, number of den = 0 sites exercised"
            .into()
    }
    fn assumptions(&self) -> Vec<String> {
        vec![
            "soundness of the gadgets of ark-r1cs-std themselves (bit decomposition, is_eq, inverse, conditional select) is assumed by the hint families; witness forging attacks the whole system including them".into(),
            "witness forging is incomplete by construction: re-derivation solves only linear-in-the-newest-variable constraints and bit decompositions, so hints that need a square root to be recomputed are reached through the hint substitutions, not through forging; a forgery that fails to complete is counted as rejected".into(),
            "forged assignments at a synthesis that contains a den = 0 isqrt site are excluded (counted): they re-find the known finding".into(),
            "a panic or synthesis error while synthesising with dishonest hints is a prover-side failure, counted as 'unsat'".into(),
            "new_variable_omit_prime_order_check is documented as unchecked and is not a gadget in the sense of the property".into(),
            format!("known finding tolerated by exact signature: {KNOWN_DEN0}"),
        ]
    }
    fn cases(&self, tier: Tier) -> u64 {
        tier.pick(9_000, 300_000)
    }
    fn max_shrink_iters(&self) -> u32 {
        128
    }
    fn prepare(&self, _tier: Tier) -> Result<(), String> {
        Ok(())
    }
    fn strategy(&self, _tier: Tier) -> BoxedStrategy<Case> {
        let substs = || proptest::collection::vec(subst(), 1..=5);
        prop_oneof![
            6 => (hint_program(), substs()).prop_map(|(prog, substs)| Case::Hint { prog, substs, forge: None }),
            3 => (hint_program(), substs(), any::<u64>()).prop_map(|(prog, substs, seed)| Case::Hint { prog, substs, forge: Some(Forge { seed, max: 24 }) }),
            4 => (coord_kind(), any::<bool>(), proptest::collection::vec(subst(), 0..=2)).prop_map(|(kind, via_affine, substs)| Case::Coords { kind, via_affine, substs }),
            1 => (0u8..7, recipe::recipe_small(), recipe::recipe_small(), gen::fq_special(), gen::limb_vec(4usize), recipe::recipe_small(), substs())
                .prop_map(|(circuit, a, b, x, l, wrong, substs)| Case::PinnedFalse { circuit, a, b, x, scalar: Num(crate::api::int_of_limbs(&l)), wrong, substs }),
            2 => (rl::fq_input(), recipe::recipe_small(), substs()).prop_map(|(s, point, substs)| Case::DecompressRaw { s, point, substs }),
        ]
        .boxed()
    }
    fn edges(&self, tier: Tier) -> Vec<Case> {
        use Recipe::*;
        let g = || Box::new(Generator);
        let w = |v: N| GOp::AllocFq { dst: 0, val: Num(v), mode: Mode::Witness };
        let we = |r: Recipe| GOp::AllocElem { dst: 0, src: r, mode: Mode::Witness, via: Via::Element };
        let q = &Q.m;
        let instances: Vec<Vec<GOp>> = vec![
            vec![w(N::from(0u32)), GOp::Isqrt { dst: 1, f: 0 }],
            vec![w(N::from(1u32)), GOp::Isqrt { dst: 1, f: 0 }],
            vec![w(N::from(4u32)), GOp::Isqrt { dst: 1, f: 0 }],
            vec![w(CURVE.zeta.clone()), GOp::Isqrt { dst: 1, f: 0 }],
            vec![w(N::from(5u32)), GOp::Isqrt { dst: 1, f: 0 }],
            vec![we(Identity), GOp::Compress { dst: 0, e: 0 }],
            vec![we(Torsion(Box::new(Identity))), GOp::Compress { dst: 0, e: 0 }],
            vec![we(Generator), GOp::Compress { dst: 0, e: 0 }],
            vec![we(MinusOneTimes(g())), GOp::Compress { dst: 0, e: 0 }],
            vec![w(N::from(0u32)), GOp::Decompress { dst: 0, f: 0 }],
            vec![w(N::from(8u32)), GOp::Decompress { dst: 0, f: 0 }],
            vec![w(q - 1u32), GOp::Decompress { dst: 0, f: 0 }],
            vec![w(N::from(1u32)), GOp::Decompress { dst: 0, f: 0 }],
            vec![w(N::from(2u32)), GOp::Decompress { dst: 0, f: 0 }],
            vec![w(N::from(4u32)), GOp::Decompress { dst: 0, f: 0 }],
            vec![w(q - 8u32), GOp::Decompress { dst: 0, f: 0 }],
            vec![w(N::from(0u32)), GOp::Elligator { dst: 0, f: 0 }, GOp::Compress { dst: 1, e: 0 }],
            vec![w(N::from(1u32)), GOp::Elligator { dst: 0, f: 0 }, GOp::Compress { dst: 1, e: 0 }],
            vec![w(N::from(3u32)), GOp::Elligator { dst: 0, f: 0 }, GOp::Compress { dst: 1, e: 0 }],
            // the identity decoded from 0 (isqrt(1): either root is a valid hint, so the prover chooses the
            // representative) under the gadgets that must not depend on the representative
            vec![w(N::from(0u32)), GOp::Decompress { dst: 0, f: 0 }, GOp::IsZero { a: 0 }],
            vec![w(N::from(0u32)), GOp::Decompress { dst: 0, f: 0 }, GOp::AllocElem { dst: 1, src: Identity, mode: Mode::Constant, via: Via::Element }, GOp::IsEq { a: 0, b: 1 }, GOp::EnforceNotEqual { a: 0, b: 1 }],
            vec![w(N::from(0u32)), GOp::Decompress { dst: 0, f: 0 }, GOp::AllocElem { dst: 1, src: Generator, mode: Mode::Witness, via: Via::Element }, GOp::Bin { dst: 2, form: rl::BinForm::AddVV, a: 0, b: 1 }, GOp::EnforceNotEqual { a: 2, b: 1 }],
            vec![we(Identity), GOp::IsZero { a: 0 }, GOp::Compress { dst: 0, e: 0 }],
            vec![we(Torsion(Box::new(Identity))), GOp::IsZero { a: 0 }, GOp::AllocElem { dst: 1, src: Identity, mode: Mode::Witness, via: Via::Element }, GOp::EnforceNotEqual { a: 0, b: 1 }],
            // offered coordinates outside the group (k*B + T4): no forged helper witness may make the allocation accept them
            vec![GOp::AllocRaw { dst: 0, src: Generator, shift: true, via_affine: false }],
            vec![GOp::AllocRaw { dst: 0, src: MulGen(5u64.into()), shift: true, via_affine: true }],
            vec![GOp::AllocRaw { dst: 0, src: Identity, shift: true, via_affine: false }],
            vec![GOp::AllocRaw { dst: 0, src: MulGen(7u64.into()), shift: false, via_affine: false }, GOp::Compress { dst: 0, e: 0 }],
            // the coordinate bits / bytes a circuit may publish: they must stay the canonical decomposition
            vec![we(Generator), GOp::ToBytes { a: 0 }],
            vec![we(MulGen(5u64.into())), GOp::ToBits { a: 0 }],
            vec![we(MinusOneTimes(g())), GOp::Double { dst: 1, a: 0 }, GOp::ToBytes { a: 1 }, GOp::ToBits { a: 1 }],
            vec![we(Generator)],
            vec![we(Identity)],
            vec![GOp::AllocElem { dst: 0, src: Generator, mode: Mode::Input, via: Via::Element }, GOp::Negate { dst: 1, a: 0 }],
            vec![GOp::AllocElem { dst: 0, src: Torsion(g()), mode: Mode::Witness, via: Via::Encoding }, GOp::Double { dst: 1, a: 0 }, GOp::Compress { dst: 0, e: 1 }],
            vec![GOp::AllocLazy { dst: 0, val: Num(N::from(2u32)), mode: Mode::Witness }, GOp::AllocLazy { dst: 1, val: Num(N::from(2u32)), mode: Mode::Input }, GOp::EnforceEqual { a: 0, b: 1 }],
            vec![GOp::AllocLazy { dst: 0, val: Num(N::from(1u32)), mode: Mode::Witness }, GOp::AllocLazy { dst: 1, val: Num(N::from(1u32)), mode: Mode::Witness }, GOp::IsEq { a: 0, b: 1 }],
            vec![GOp::AllocLazy { dst: 0, val: Num(N::from(8u32)), mode: Mode::Witness }, GOp::AllocLazy { dst: 1, val: Num(N::from(3u32)), mode: Mode::Input }, GOp::CondSelect { dst: 2, cond: true, a: 0, b: 1 }],
            vec![GOp::AllocLazy { dst: 0, val: Num(N::from(8u32)), mode: Mode::Witness }, GOp::AllocLazy { dst: 1, val: Num(N::from(3u32)), mode: Mode::Input }, GOp::CondSelectConst { dst: 2, cond: false, a: 0, b: 1 }],
            vec![GOp::AllocLazy { dst: 0, val: Num(N::from(3u32)), mode: Mode::Witness }, GOp::AllocLazy { dst: 1, val: Num(N::from(8u32)), mode: Mode::Input }, GOp::CondSelectConst { dst: 2, cond: true, a: 0, b: 1 }],
        ];
        let mut v = Vec::new();
        for prog in &instances {
            for site in [None, Some(0u8), Some(1u8)] {
                v.push(Case::Hint { prog: prog.clone(), substs: enumerated_substs(site), forge: None });
            }
        }
        // witness forging: every witness of the small gadget instances, on the honest hints and on the
        // substitutions that make the honest equations fail (a forged helper may repair them)
        let forge_substs = vec![
            Subst { flag: FlagSel::False, y: YSel::Zero, site: None },
            Subst { flag: FlagSel::True, y: YSel::Zero, site: None },
            Subst { flag: FlagSel::Flip, y: YSel::Honest, site: None },
            Subst { flag: FlagSel::False, y: YSel::SqrtInv(false), site: None },
            Subst { flag: FlagSel::True, y: YSel::SqrtZetaInv(false), site: None },
            Subst { flag: FlagSel::Honest, y: YSel::One, site: None },
        ];
        // ... at every site, at the first site only (the decoding inside a witness allocation) and at the second
        // site only (the gadget under test, with the allocation left honest)
        let forge_substs: Vec<Subst> = [None, Some(0u8), Some(1u8)].iter().flat_map(|site| forge_substs.iter().map(move |s| Subst { site: *site, ..s.clone() })).collect();
        let all_cols = tier.pick(400, 100_000) as u32;
        for (k, prog) in instances.iter().enumerate() {
            v.push(Case::Hint { prog: prog.clone(), substs: forge_substs.clone(), forge: Some(Forge { seed: k as u64, max: all_cols }) });
        }
        let src = PtSrc::SmallMul(5);
        for kind in [
            CoordKind::Valid(src.clone()),
            CoordKind::OtherRep(src.clone()),
            CoordKind::T4Shift(src.clone()),
            CoordKind::T4(false),
            CoordKind::T4(true),
            CoordKind::Origin,
            CoordKind::XAxis(Num(N::from(7u32))),
            CoordKind::YAxis(Num(N::from(0u32))),
            CoordKind::YAxis(Num(N::from(1u32))),
            CoordKind::YAxis(Num(N::from(2u32))),
            CoordKind::YAxis(Num(q - 1u32)),
            CoordKind::OffCurve(Num(N::from(3u32)), Num(N::from(4u32))),
            CoordKind::Scaled(src.clone(), Num(N::from(2u32))),
            CoordKind::Scaled(PtSrc::SmallMul(0), Num(N::from(2u32))),
            CoordKind::Scaled(src.clone(), Num(q - 1u32)),
            CoordKind::Scaled(src.clone(), Num(N::from(0u32))),
        ] {
            for via_affine in [false, true] {
                v.push(Case::Coords { kind: kind.clone(), via_affine, substs: enumerated_substs(None) });
            }
        }
        for c in 0..7u8 {
            v.push(Case::PinnedFalse { circuit: c, a: MulGen(3u64.into()), b: Elligator(4u64.into()), x: Num(N::from(9u32)), scalar: Num(N::from(77u32)), wrong: MulGen(666u64.into()), substs: enumerated_substs(None) });
        }
        for s in [N::from(0u32), N::from(8u32), q - 1u32, N::from(1u32), N::from(2u32)] {
            for point in [Identity, Generator, MulGen(12345u64.into())] {
                v.push(Case::DecompressRaw { s: Num(s.clone()), point, substs: enumerated_substs(None) });
            }
        }
        v
    }
    fn check(&self, case: &Case, ctx: &mut Ctx) -> Result<(), Failure> {
        let dishonest = |s: &[Subst]| s.iter().any(|x| *x != Subst::honest());
        match case {
            Case::Hint { prog, substs, forge } => {
                if dishonest(substs) {
                    ctx.nontrivial();
                }
                hint_case(prog, substs, *forge, ctx)
            }
            Case::Coords { kind, via_affine, substs } => {
                if !matches!(kind, CoordKind::Valid(_)) || dishonest(substs) {
                    ctx.nontrivial();
                }
                coords_case(kind, *via_affine, substs, ctx)
            }
            Case::PinnedFalse { circuit, a, b, x, scalar, wrong, substs } => {
                ctx.nontrivial();
                pinned_false(*circuit as usize % 7, a, b, &x.0, &scalar.0, wrong, substs, ctx)
            }
            Case::DecompressRaw { s, point, substs } => {
                ctx.nontrivial();
                decompress_raw(&s.0, point, substs, ctx)
            }
        }
    }
    fn shrink_candidates(&self, case: &Case) -> Vec<Case> {
        let drop_substs = |substs: &Vec<Subst>| -> Vec<Vec<Subst>> {
            let mut v = Vec::new();
            if substs.len() > 1 {
                for i in 0..substs.len() {
                    v.push(vec![substs[i].clone()]);
                }
            }
            v
        };
        match case {
            Case::Hint { prog, substs, forge } => {
                let mut v: Vec<Case> = drop_substs(substs).into_iter().map(|s| Case::Hint { prog: prog.clone(), substs: s, forge: *forge }).collect();
                v.extend(rl::shrink_program(prog).into_iter().map(|p| Case::Hint { prog: p, substs: substs.clone(), forge: *forge }));
                if forge.is_some() {
                    v.push(Case::Hint { prog: prog.clone(), substs: substs.clone(), forge: None });
                }
                v
            }
            Case::Coords { kind, via_affine, substs } => drop_substs(substs).into_iter().map(|s| Case::Coords { kind: kind.clone(), via_affine: *via_affine, substs: s }).chain(if substs.is_empty() { vec![] } else { vec![Case::Coords { kind: kind.clone(), via_affine: *via_affine, substs: vec![] }] }).collect(),
            Case::PinnedFalse { circuit, a, b, x, scalar, wrong, substs } => drop_substs(substs).into_iter().map(|s| Case::PinnedFalse { circuit: *circuit, a: a.clone(), b: b.clone(), x: x.clone(), scalar: scalar.clone(), wrong: wrong.clone(), substs: s }).collect(),
            Case::DecompressRaw { s, point, substs } => drop_substs(substs).into_iter().map(|ss| Case::DecompressRaw { s: s.clone(), point: point.clone(), substs: ss }).collect(),
        }
    }
    fn required_classes(&self, _tier: Tier) -> Vec<String> {
        vec!["den=0-sites-exercised".into(), "isqrt-sites".into(), "forged-witness|rejected".into(), "forged-witness|satisfied,observables-unchanged(free internal witness)".into(), "coords:P+T4(out-of-group):invalid".into(), "coords:scaled-valid(off-curve,same-ratio):invalid".into(), "coords:valid:valid".into(), "decompress-raw:invalid-encoding".into()]
    }
    fn extra_coverage(&self, classes: &mut std::collections::BTreeMap<String, u64>, cov: &mut serde_json::Map<String, serde_json::Value>) {
        let sat: u64 = classes.iter().filter(|(k, _)| k.ends_with("|sat")).map(|(_, v)| *v).sum();
        let unsat: u64 = classes.iter().filter(|(k, _)| k.ends_with("|unsat")).map(|(_, v)| *v).sum();
        cov.insert("faulted_syntheses_satisfied".into(), serde_json::json!(sat));
        cov.insert("faulted_syntheses_unsatisfied".into(), serde_json::json!(unsat));
    }
}
