//! C02 — decoding accepts exactly the canonical encodings of the specification, through
//! every decoding entry point of both configurations (DESIGN §5/C02).

use crate::api::{ark, min, Ark, Backend, DecErr, Min};
use crate::engine::{Ctx, Failure, Property, Tier};
use crate::gen::HexBytes;
use crate::props::common::{boundary_values, bytes32_near, near_miss, pt_src, Bytes32, PtSrc};
use crate::recipe::judge_fast as judge;
use crate::refmodel::{le32, Pt, CURVE, N, Q};
use proptest::prelude::*;
use serde::{Deserialize, Serialize};
use std::convert::TryFrom;

pub struct C02;

#[derive(Clone, Debug, Serialize, Deserialize)]
pub enum Case {
    B32(Bytes32),
    /// a byte slice of arbitrary length (0..=80)
    Slice { family: String, bytes: HexBytes },
}

/// every decoding entry point of the ark configuration that takes exactly 32 bytes
pub fn ark_entry_points(b: &[u8; 32]) -> Vec<(&'static str, Result<ark::Element, DecErr>)> {
    use ark_ec::AffineRepr;
    use ark_serialize::CanonicalDeserialize;
    let enc = ark::Encoding(*b);
    let mut v: Vec<(&'static str, Result<ark::Element, DecErr>)> = Vec::new();
    v.push(("ark:vartime_decompress", enc.vartime_decompress().map_err(Into::into)));
    #[allow(deprecated)]
    v.push(("ark:decompress(deprecated)", enc.decompress().map_err(Into::into)));
    v.push(("ark:TryFrom<&Encoding>", ark::Element::try_from(&enc).map_err(Into::into)));
    v.push(("ark:TryFrom<Encoding>", ark::Element::try_from(enc).map_err(Into::into)));
    v.push(("ark:TryFrom<&[u8]>", ark::Element::try_from(&b[..]).map_err(Into::into)));
    v.push(("ark:TryFrom<[u8;32]>", ark::Element::try_from(*b).map_err(Into::into)));
    v.push(("ark:Element::deserialize_compressed", ark::Element::deserialize_compressed(&b[..]).map_err(|_| DecErr::Other)));
    v.push((
        "ark:Element::deserialize_with_mode",
        ark::Element::deserialize_with_mode(&b[..], ark_serialize::Compress::Yes, ark_serialize::Validate::Yes).map_err(|_| DecErr::Other),
    ));
    v.push((
        "ark:AffinePoint::deserialize_compressed",
        <ark::Element as ark_ec::CurveGroup>::Affine::deserialize_compressed(&b[..]).map(|a| a.into_group()).map_err(|_| DecErr::Other),
    ));
    // Encoding's own parsers only check the length; go through them and then decode
    v.push((
        "ark:Encoding::try_from(&[u8])->decompress",
        ark::Encoding::try_from(&b[..]).map_err(DecErr::from).and_then(|e| e.vartime_decompress().map_err(Into::into)),
    ));
    v.push((
        "ark:Encoding::deserialize_compressed->decompress",
        ark::Encoding::deserialize_compressed(&b[..]).map_err(|_| DecErr::Other).and_then(|e| e.vartime_decompress().map_err(Into::into)),
    ));
    v.push(("ark:Encoding::from([u8;32])->try_into", ark::Element::try_from(ark::Encoding::from(*b)).map_err(Into::into)));
    // a reader whose read() is interrupted now and then: ErrorKind::Interrupted is non-fatal by the Read
    // contract (no byte is lost), a deserialiser has to retry
    struct Interrupting<'a> {
        data: &'a [u8],
        tick: u32,
    }
    impl<'a> std::io::Read for Interrupting<'a> {
        fn read(&mut self, buf: &mut [u8]) -> std::io::Result<usize> {
            self.tick += 1;
            if self.tick % 2 == 1 {
                return Err(std::io::Error::new(std::io::ErrorKind::Interrupted, "interrupted"));
            }
            let n = buf.len().min(5).min(self.data.len());
            buf[..n].copy_from_slice(&self.data[..n]);
            self.data = &self.data[n..];
            Ok(n)
        }
    }
    v.push(("ark:Element::deserialize_compressed(interrupted reader)", ark::Element::deserialize_compressed(Interrupting { data: &b[..], tick: 0 }).map_err(|_| DecErr::Other)));
    v.push((
        "ark:AffinePoint::deserialize_compressed(interrupted reader)",
        <ark::Element as ark_ec::CurveGroup>::Affine::deserialize_compressed(Interrupting { data: &b[..], tick: 0 }).map(|a| a.into_group()).map_err(|_| DecErr::Other),
    ));
    // containers read their items with Validate::No and validate afterwards; on the pinned tree that mode is
    // `unimplemented!()`, which accepts nothing: a "not implemented" panic is no verdict, anything else is
    {
        use std::panic::{catch_unwind, AssertUnwindSafe};
        let mut framed = 1u64.to_le_bytes().to_vec();
        framed.extend_from_slice(&b[..]);
        let mut opt = vec![1u8];
        opt.extend_from_slice(&b[..]);
        let tries: Vec<(&'static str, Box<dyn Fn() -> Result<ark::Element, DecErr>>)> = vec![
            ("ark:Vec<Element>::deserialize_compressed", Box::new({ let f = framed.clone(); move || Vec::<ark::Element>::deserialize_compressed(&f[..]).map_err(|_| DecErr::Other).and_then(|v| v.first().copied().ok_or(DecErr::Other)) })),
            ("ark:[Element;1]::deserialize_compressed", Box::new({ let bb = *b; move || <[ark::Element; 1]>::deserialize_compressed(&bb[..]).map(|a| a[0]).map_err(|_| DecErr::Other) })),
            ("ark:(Element,)::deserialize_compressed", Box::new({ let bb = *b; move || <(ark::Element,)>::deserialize_compressed(&bb[..]).map(|a| a.0).map_err(|_| DecErr::Other) })),
            ("ark:Option<Element>::deserialize_compressed", Box::new({ let f = opt.clone(); move || Option::<ark::Element>::deserialize_compressed(&f[..]).map_err(|_| DecErr::Other).and_then(|o| o.ok_or(DecErr::Other)) })),
            ("ark:Element::deserialize_compressed_unchecked", Box::new({ let bb = *b; move || ark::Element::deserialize_compressed_unchecked(&bb[..]).map_err(|_| DecErr::Other) })),
        ];
        for (name, f) in tries {
            match catch_unwind(AssertUnwindSafe(|| f())) {
                Ok(r) => {
                    // the unchecked mode is allowed to skip validation only of what it documents (nothing here is
                    // documented): its verdict is compared like the others when it returns at all
                    v.push((name, r));
                }
                Err(p) => {
                    let msg = p.downcast_ref::<&str>().map(|s| s.to_string()).or_else(|| p.downcast_ref::<String>().cloned()).unwrap_or_default();
                    if !msg.contains("not implemented") {
                        v.push((name, Err(DecErr::Panicked)));
                    }
                }
            }
        }
    }
    v
}

pub fn min_entry_points(b: &[u8; 32]) -> Vec<(&'static str, Result<min::Element, DecErr>)> {
    let enc = min::Encoding(*b);
    let mut v: Vec<(&'static str, Result<min::Element, DecErr>)> = Vec::new();
    v.push(("min:vartime_decompress", enc.vartime_decompress().map_err(Into::into)));
    v.push(("min:TryFrom<&Encoding>", min::Element::try_from(&enc).map_err(Into::into)));
    v.push(("min:TryFrom<Encoding>", min::Element::try_from(enc).map_err(Into::into)));
    v.push(("min:TryFrom<&[u8]>", min::Element::try_from(&b[..]).map_err(Into::into)));
    v.push(("min:TryFrom<[u8;32]>", min::Element::try_from(*b).map_err(Into::into)));
    v.push((
        "min:Encoding::try_from(&[u8])->decompress",
        min::Encoding::try_from(&b[..]).map_err(DecErr::from).and_then(|e| e.vartime_decompress().map_err(Into::into)),
    ));
    v
}

fn verdict_check<B: Backend>(name: &str, got: &Result<B::E, DecErr>, want: &Result<Pt, crate::refmodel::Invalid>, b: &[u8], ctx: &mut Ctx) -> Result<(), Failure> {
    ctx.class(name);
    ctx.sub_eval();
    match (got, want) {
        (Ok(e), Ok(p)) => {
            if let Err(why) = judge::<B>(e, p) {
                ctx.report(format!("C02|{name}|wrong-element"), format!("{name}({}): {why}", hex::encode(b)))?;
            }
        }
        (Ok(_), Err(_)) => ctx.report(format!("C02|{name}|accepts-invalid"), format!("{name} accepts {} which the specification rejects", hex::encode(b)))?,
        (Err(e), Ok(_)) => ctx.report(format!("C02|{name}|rejects-valid"), format!("{name} rejects the canonical encoding {} with {e:?}", hex::encode(b)))?,
        (Err(e), Err(_)) => {
            // 32-byte strings must be InvalidEncoding; the stream deserialisers may use any error
            if *e != DecErr::InvalidEncoding && *e != DecErr::Other {
                ctx.report(format!("C02|{name}|wrong-error-variant"), format!("{name}({}) = Err({e:?}), expected InvalidEncoding", hex::encode(b)))?;
            }
        }
    }
    Ok(())
}

/// a reader that hands out at most `chunk` bytes per `read` call (fragmented stream)
pub struct Frag<'a> {
    pub data: &'a [u8],
    pub chunk: usize,
}
impl<'a> std::io::Read for Frag<'a> {
    fn read(&mut self, buf: &mut [u8]) -> std::io::Result<usize> {
        let n = buf.len().min(self.chunk).min(self.data.len());
        buf[..n].copy_from_slice(&self.data[..n]);
        self.data = &self.data[n..];
        Ok(n)
    }
}

/// stream deserialisation from fragmented readers must give the same verdict and element
fn fragmented(arr: &[u8; 32], want: &Result<Pt, crate::refmodel::Invalid>, ctx: &mut Ctx) -> Result<(), Failure> {
    use ark_ec::AffineRepr;
    use ark_serialize::CanonicalDeserialize;
    for chunk in [1usize, 7, 31] {
        let e = ark::Element::deserialize_compressed(Frag { data: &arr[..], chunk }).map_err(|_| DecErr::Other);
        verdict_check::<Ark>("ark:Element::deserialize_compressed(fragmented-reader)", &e, want, arr, ctx)?;
        let a = <ark::Element as ark_ec::CurveGroup>::Affine::deserialize_compressed(Frag { data: &arr[..], chunk }).map(|a| a.into_group()).map_err(|_| DecErr::Other);
        verdict_check::<Ark>("ark:AffinePoint::deserialize_compressed(fragmented-reader)", &a, want, arr, ctx)?;
    }
    Ok(())
}

/// the oracle for one 32-byte string, shared with the libFuzzer target
pub fn check_b32(arr: &[u8; 32], ctx: &mut Ctx) -> Result<(), Failure> {
    let want = CURVE.decode_spec(arr);
    ctx.class(if want.is_ok() { "model:accept" } else { "model:reject" });
    for (name, got) in ark_entry_points(arr) {
        verdict_check::<Ark>(name, &got, &want, arr, ctx)?;
    }
    for (name, got) in min_entry_points(arr) {
        verdict_check::<Min>(name, &got, &want, arr, ctx)?;
    }
    fragmented(arr, &want, ctx)?;
    // decoding is a function of the 32 bytes: the verdict for `arr` is the same again after strings that share
    // its low or its high half have been decoded (a memo, a cache or leftover state keyed by part of the input)
    {
        let first_ark = ark::Encoding(*arr).vartime_decompress().map(|e| e.vartime_compress().0).ok();
        let first_min = min::Encoding(*arr).vartime_decompress().map(|e| e.vartime_compress().0).ok();
        let gen_enc = CURVE.encode_bytes(&crate::refmodel::GEN);
        let mut lo_same = *arr;
        lo_same[16..].copy_from_slice(&gen_enc[16..]);
        let mut hi_same = *arr;
        hi_same[..16].copy_from_slice(&gen_enc[..16]);
        for other in [lo_same, hi_same, gen_enc] {
            let _ = ark::Encoding(other).vartime_decompress();
            let _ = min::Encoding(other).vartime_decompress();
        }
        ctx.sub_eval();
        if ark::Encoding(*arr).vartime_decompress().map(|e| e.vartime_compress().0).ok() != first_ark || min::Encoding(*arr).vartime_decompress().map(|e| e.vartime_compress().0).ok() != first_min {
            ctx.report("C02|decode|not-a-function".to_string(), format!("decoding {} gives a different result after related strings were decoded", hex::encode(arr)))?;
        }
    }
    Ok(())
}

/// the oracle for a slice of arbitrary length, shared with the libFuzzer target
pub fn check_slice(b: &[u8], ctx: &mut Ctx) -> Result<(), Failure> {
    use ark_ec::AffineRepr;
    use ark_serialize::CanonicalDeserialize;
    if b.len() == 32 {
        let mut a = [0u8; 32];
        a.copy_from_slice(b);
        return check_b32(&a, ctx);
    }
    ctx.class(&format!("len:{}", match b.len() { 0 => "0", 1..=30 => "1-30", 31 => "31", 33 => "33", 34..=63 => "34-63", 64 => "64", _ => "65-80" }));
    let len_err = |name: &str, r: Result<(), DecErr>, ctx: &mut Ctx| -> Result<(), Failure> {
        ctx.class(name);
        ctx.sub_eval();
        match r {
            Err(DecErr::InvalidSliceLength) => Ok(()),
            Err(e) => ctx.report(format!("C02|{name}|wrong-length-error"), format!("{name} on a {}-byte slice = Err({e:?}), expected InvalidSliceLength", b.len())),
            Ok(()) => ctx.report(format!("C02|{name}|accepts-wrong-length"), format!("{name} accepts a {}-byte slice {}", b.len(), hex::encode(b))),
        }
    };
    len_err("ark:TryFrom<&[u8]>(len)", ark::Element::try_from(b).map(|_| ()).map_err(Into::into), ctx)?;
    len_err("ark:Encoding::try_from(&[u8])(len)", ark::Encoding::try_from(b).map(|_| ()).map_err(Into::into), ctx)?;
    len_err("min:TryFrom<&[u8]>(len)", min::Element::try_from(b).map(|_| ()).map_err(Into::into), ctx)?;
    len_err("min:Encoding::try_from(&[u8])(len)", min::Encoding::try_from(b).map(|_| ()).map_err(Into::into), ctx)?;
    // stream deserialisers: a short stream is an error; from a longer stream exactly the
    // first 32 bytes are consumed and judged
    let streams: Vec<(&'static str, Result<ark::Element, DecErr>, usize)> = {
        let mut r1 = b;
        let e1 = ark::Element::deserialize_compressed(&mut r1).map_err(|_| DecErr::Other);
        let mut r2 = b;
        let e2 = <ark::Element as ark_ec::CurveGroup>::Affine::deserialize_compressed(&mut r2).map(|a| a.into_group()).map_err(|_| DecErr::Other);
        vec![("ark:Element::deserialize_compressed(stream)", e1, b.len() - r1.len()), ("ark:AffinePoint::deserialize_compressed(stream)", e2, b.len() - r2.len())]
    };
    for (name, got, consumed) in streams {
        ctx.class(name);
        ctx.sub_eval();
        if b.len() < 32 {
            if got.is_ok() {
                ctx.report(format!("C02|{name}|accepts-short-stream"), format!("{name} accepts a {}-byte stream", b.len()))?;
            }
        } else {
            let mut a = [0u8; 32];
            a.copy_from_slice(&b[..32]);
            let want = CURVE.decode_spec(&a);
            verdict_check::<Ark>(name, &got, &want, b, ctx)?;
            if got.is_ok() && consumed != 32 {
                ctx.report(format!("C02|{name}|consumed"), format!("{name} consumed {consumed} bytes of the stream instead of 32"))?;
            }
        }
    }
    Ok(())
}

/// lengths congruent to 32 modulo 2^8 / 2^16 (a length narrowed to a smaller integer type before the
/// comparison), and their neighbours; the slice starts with a valid encoding
fn wrapping_length_case() -> BoxedStrategy<Case> {
    (pt_src(), prop_oneof![Just(288usize), Just(544), Just(32 + 65536), Just(287), Just(289), Just(256), Just(255), Just(65536), Just(32 + 2 * 65536)], any::<u8>())
        .prop_map(|(src, len, fill)| {
            let s = CURVE.encode_bytes(&src.point());
            let mut v = s.to_vec();
            v.resize(len, fill);
            Case::Slice { family: "valid-then-padding(wrapping length)".into(), bytes: HexBytes(v) }
        })
        .boxed()
}

fn slice_case() -> BoxedStrategy<Case> {
    (pt_src(), 0usize..=80, 0u8..4, proptest::collection::vec(any::<u8>(), 80))
        .prop_map(|(src, len, mode, rnd)| {
            let s = CURVE.encode_bytes(&src.point());
            let (family, bytes) = match mode {
                // prefix / zero-extension of a valid encoding: a truncating or padding decoder would accept
                0 => {
                    let mut v = s.to_vec();
                    v.resize(len.max(0), 0);
                    v.truncate(len);
                    ("valid-prefix-or-zero-extended", v)
                }
                // valid encoding followed by more data
                1 => {
                    let mut v = s.to_vec();
                    v.extend_from_slice(&rnd);
                    v.truncate(len);
                    ("valid-then-random", v)
                }
                // data, then a valid encoding at the end (a decoder that takes the *last* 32 bytes)
                2 => {
                    let mut v = rnd.clone();
                    v.truncate(len.saturating_sub(32));
                    v.extend_from_slice(&s);
                    v.truncate(len);
                    ("random-then-valid", v)
                }
                _ => {
                    let mut v = rnd.clone();
                    v.truncate(len);
                    ("random", v)
                }
            };
            Case::Slice { family: family.into(), bytes: HexBytes(bytes) }
        })
        .boxed()
}

impl Property for C02 {
    type Case = Case;
    const ID: &'static str = "C02";
    fn rule(&self) -> String {
        "cases: 32-byte strings (near-miss families of valid encodings produced by the model: s+kq aliases, q-s, single-bit flips, high bits, \
         s+1, absolute boundary values, uniform, uniform below 2^253, strings that tie with q in their top limbs, strings solved from structured intermediate values of decoding) and slices of every length 0..=80 and of lengths that wrap a narrow integer (288, 544, 65568) built from valid encodings; each is fed \
         to every decoding entry point of both configurations (14 ark incl. interrupted and fragmented readers, containers and the unchecked mode when implemented, + 6 min) and compared with the model's decodeSpec verdict and point. \
         Non-trivial: the string comes from a near-miss family (not uniform) or has length != 32; distinct by digest"
            .into()
    }
    fn assumptions(&self) -> Vec<String> {
        vec![
            "deserialize_uncompressed / *_unchecked are unimplemented!() for every input and are not decoding entry points; not called".into(),
            "stream deserialisers may report any error; from a longer stream they must consume exactly 32 bytes".into(),
            "either coset representative accepted as 'the same element'".into(),
        ]
    }
    fn cases(&self, tier: Tier) -> u64 {
        tier.pick(60_000, 3_000_000)
    }
    fn strategy(&self, _tier: Tier) -> BoxedStrategy<Case> {
        prop_oneof![
            5 => bytes32_near().prop_map(Case::B32),
            1 => slice_case(),
            1 => wrapping_length_case(),
        ]
        .boxed()
    }
    fn edges(&self, _tier: Tier) -> Vec<Case> {
        let mut v = Vec::new();
        for b in boundary_values() {
            v.push(Case::B32(Bytes32::new("boundary", &b)));
        }
        let g = CURVE.encode_spec(&crate::refmodel::GEN);
        let p5 = CURVE.encode_spec(&PtSrc::SmallMul(5).point());
        for s in [&g, &p5] {
            for i in 0..256u64 {
                let mut x = s.clone();
                x.set_bit(i, !s.bit(i));
                v.push(Case::B32(Bytes32::new("bitflip", &x)));
            }
            for w in 0..8u8 {
                for arg in [0u16, 0x5555, 0xaaaa, 0xffff] {
                    v.push(Case::B32(near_miss(s, w, arg)));
                }
            }
            let sb = le32(s);
            for len in 0..=80usize {
                let mut b = sb.to_vec();
                b.resize(len, 0);
                v.push(Case::Slice { family: "edge-valid-resized".into(), bytes: HexBytes(b) });
            }
        }
        for len in [255usize, 256, 287, 288, 289, 544, 65536, 65568] {
            let mut b = le32(&g).to_vec();
            b.resize(len, 0);
            v.push(Case::Slice { family: "valid-then-padding(wrapping length)".into(), bytes: HexBytes(b) });
        }
        // s = q - 1 (= -1) and 1: the specification's division by zero
        v.push(Case::B32(Bytes32::new("minus-one", &(&Q.m - 1u32))));
        v.push(Case::B32(Bytes32::new("one", &N::from(1u32))));
        v
    }
    fn check(&self, case: &Case, ctx: &mut Ctx) -> Result<(), Failure> {
        match case {
            Case::B32(b) => {
                ctx.class(&format!("family:{}", b.family));
                if !b.family.starts_with("uniform") {
                    ctx.nontrivial();
                }
                check_b32(&b.arr(), ctx)
            }
            Case::Slice { family, bytes } => {
                ctx.class(&format!("slice-family:{family}"));
                if bytes.0.len() != 32 {
                    ctx.nontrivial();
                }
                check_slice(&bytes.0, ctx)
            }
        }
    }
    fn required_classes(&self, _tier: Tier) -> Vec<String> {
        let mut v: Vec<String> = ["alias-s+kq", "negation-q-s", "bitflip-mid", "bitflip-high", "highbit-set", "boundary", "valid", "valid+1", "uniform-253"]
            .iter()
            .map(|s| format!("family:{s}"))
            .collect();
        for l in ["0", "1-30", "31", "33", "34-63", "64", "65-80"] {
            v.push(format!("len:{l}"));
        }
        v.push("model:accept".into());
        v.push("model:reject".into());
        v
    }
}
