//! C05 — scalar multiplication is the Z/r-module action; all elements have order | r
//! (DESIGN §5/C05).

use crate::api::{ark, arkf, int_of_limbs, min, minf, Ark, Backend, Min};
use crate::engine::{Ctx, Failure, Property, Tier};
use crate::gen::{self, classify_fe, pick, Num};
use crate::props::common::Bk;
use crate::recipe::{self, judge_fast, Recipe};
use crate::refmodel::{Pt, CURVE, N, R};
use num_traits::{One, Zero};
use proptest::prelude::*;
use serde::{Deserialize, Serialize};

pub struct C05;

macro_rules! enum_forms {
    ($ty:ident { $($name:ident : $ark:expr, $min:expr;)* }) => {
        #[derive(Clone, Copy, Debug, Serialize, Deserialize, PartialEq, Eq, Hash)]
        pub enum $ty { $($name),* }
        impl $ty {
            pub const ALL: &'static [$ty] = &[$($ty::$name),*];
            pub fn in_ark(self) -> bool { match self { $($ty::$name => $ark),* } }
            pub fn in_min(self) -> bool { match self { $($ty::$name => $min),* } }
            pub fn name(self) -> &'static str { match self { $($ty::$name => stringify!($name)),* } }
            pub fn of(bk: Bk) -> Vec<$ty> {
                Self::ALL.iter().copied().filter(|f| match bk { Bk::Ark => f.in_ark(), Bk::Min => f.in_min() }).collect()
            }
        }
    };
}

enum_forms!(MulForm {
    ElemRefMulFrRef: true, true;
    ElemMulFrRef: true, true;
    ElemRefMulFr: true, true;
    ElemMulFr: true, true;
    FrRefMulElemRef: true, true;
    FrMulElemRef: true, true;
    FrRefMulElem: true, true;
    FrMulElem: true, true;
    ElemMulAssignFrRef: true, true;
    ElemMulAssignFr: true, true;
    AffRefMulFrRef: true, false;
    AffMulFrRef: true, false;
    AffRefMulFr: true, false;
    AffMulFr: true, false;
    FrRefMulAffRef: true, false;
    FrMulAffRef: true, false;
    FrRefMulAff: true, false;
    FrMulAff: true, false;
    AffMulAssignFrRef: true, false;
    AffMulAssignFr: true, false;
});

enum_forms!(LimbForm {
    GroupMulBigint: true, false;
    AffineMulBigint: true, false;
    GroupMulBitsBe: true, false;
    ScalarMulCt: false, true;
    ScalarMulVartime: false, true;
});

enum_forms!(MsmForm {
    VartimeMsmOwned: true, false;
    VartimeMsmRef: true, false;
    MsmNormalizeBatch: true, false;
    MsmBatchConvert: true, false;
    MsmUnchecked: true, false;
    MsmBigint: true, false;
    FixedBaseMsm: true, false;
});

type AE = ark::Element;
type AA = <ark::Element as ark_ec::CurveGroup>::Affine;

pub fn ark_mul(f: MulForm, e: AE, k: ark::Fr) -> AE {
    use ark_ec::CurveGroup;
    let a: AA = e.into_affine();
    match f {
        MulForm::ElemRefMulFrRef => &e * &k,
        MulForm::ElemMulFrRef => e * &k,
        MulForm::ElemRefMulFr => &e * k,
        MulForm::ElemMulFr => e * k,
        MulForm::FrRefMulElemRef => &k * &e,
        MulForm::FrMulElemRef => k * &e,
        MulForm::FrRefMulElem => &k * e,
        MulForm::FrMulElem => k * e,
        MulForm::ElemMulAssignFrRef => {
            let mut x = e;
            x *= &k;
            x
        }
        MulForm::ElemMulAssignFr => {
            let mut x = e;
            x *= k;
            x
        }
        MulForm::AffRefMulFrRef => (&a * &k).into(),
        MulForm::AffMulFrRef => a * &k,
        MulForm::AffRefMulFr => (&a * k).into(),
        MulForm::AffMulFr => a * k,
        MulForm::FrRefMulAffRef => (&k * &a).into(),
        MulForm::FrMulAffRef => (k * &a).into(),
        MulForm::FrRefMulAff => (&k * a).into(),
        MulForm::FrMulAff => (k * a).into(),
        MulForm::AffMulAssignFrRef => {
            let mut x = a;
            x *= &k;
            x.into()
        }
        MulForm::AffMulAssignFr => {
            let mut x = a;
            x *= k;
            x.into()
        }
    }
}

pub fn min_mul(f: MulForm, e: min::Element, k: min::Fr) -> min::Element {
    match f {
        MulForm::ElemRefMulFrRef => &e * &k,
        MulForm::ElemMulFrRef => e * &k,
        MulForm::ElemRefMulFr => &e * k,
        MulForm::ElemMulFr => e * k,
        MulForm::FrRefMulElemRef => &k * &e,
        MulForm::FrMulElemRef => k * &e,
        MulForm::FrRefMulElem => &k * e,
        MulForm::FrMulElem => k * e,
        MulForm::ElemMulAssignFrRef => {
            let mut x = e;
            x *= &k;
            x
        }
        MulForm::ElemMulAssignFr => {
            let mut x = e;
            x *= k;
            x
        }
        other => panic!("{other:?} does not exist in the minimal configuration"),
    }
}

pub fn ark_limbs(f: LimbForm, e: AE, l: &[u64]) -> AE {
    use ark_ec::{AffineRepr, CurveGroup, Group};
    match f {
        LimbForm::GroupMulBigint => e.mul_bigint(l),
        LimbForm::AffineMulBigint => e.into_affine().mul_bigint(l),
        LimbForm::GroupMulBitsBe => {
            let mut bits = Vec::new();
            for w in l.iter().rev() {
                for i in (0..64).rev() {
                    bits.push((w >> i) & 1 == 1);
                }
            }
            e.mul_bits_be(bits.into_iter())
        }
        other => panic!("{other:?} does not exist in the arkworks configuration"),
    }
}

pub fn min_limbs(f: LimbForm, e: min::Element, l: &[u64]) -> min::Element {
    match f {
        LimbForm::ScalarMulCt => e.scalar_mul(l),
        LimbForm::ScalarMulVartime => e.scalar_mul_vartime(l),
        other => panic!("{other:?} does not exist in the minimal configuration"),
    }
}

pub fn ark_msm(f: MsmForm, pts: &[AE], ks: &[ark::Fr]) -> AE {
    use ark_ec::{CurveGroup, ScalarMul, VariableBaseMSM};
    use ark_ff::PrimeField;
    match f {
        MsmForm::VartimeMsmOwned => AE::vartime_multiscalar_mul(ks.to_vec(), pts.to_vec()),
        MsmForm::VartimeMsmRef => AE::vartime_multiscalar_mul(ks.iter(), pts.iter()),
        MsmForm::MsmNormalizeBatch => {
            let bases = AE::normalize_batch(pts);
            <AE as VariableBaseMSM>::msm(&bases, ks).expect("equal lengths")
        }
        MsmForm::MsmBatchConvert => {
            let bases = AE::batch_convert_to_mul_base(pts);
            <AE as VariableBaseMSM>::msm(&bases, ks).expect("equal lengths")
        }
        MsmForm::MsmUnchecked => {
            let bases = AE::normalize_batch(pts);
            <AE as VariableBaseMSM>::msm_unchecked(&bases, ks)
        }
        MsmForm::MsmBigint => {
            let bases = AE::normalize_batch(pts);
            let bi: Vec<_> = ks.iter().map(|k| k.into_bigint()).collect();
            <AE as VariableBaseMSM>::msm_bigint(&bases, &bi)
        }
        MsmForm::FixedBaseMsm => {
            // ark-ec's fixed-base windowed multiplication: every scalar times the *first* point;
            // the harness sums the products with the remaining points handled by the operator form
            use ark_ec::scalar_mul::fixed_base::FixedBase;
            if pts.is_empty() {
                return AE::IDENTITY;
            }
            let scalar_size = <ark::Fr as PrimeField>::MODULUS_BIT_SIZE as usize;
            let window = FixedBase::get_mul_window_size(ks.len().max(1));
            let table = FixedBase::get_window_table::<AE>(scalar_size, window, pts[0]);
            let prods: Vec<AE> = FixedBase::msm::<AE>(scalar_size, window, &table, ks);
            // sum_i k_i * P_i = k_0 * P_0 + sum_{i>0} k_i * P_i ; the fixed-base table serves i = 0 only,
            // the other products of the table (k_i * P_0) are checked against the operator form
            let mut acc = prods.first().copied().unwrap_or(AE::IDENTITY);
            for i in 1..pts.len().min(ks.len()) {
                if prods[i] != pts[0] * ks[i] || prods[i].vartime_compress().0 != (pts[0] * ks[i]).vartime_compress().0 {
                    // make the disagreement visible in the result
                    return prods[i];
                }
                acc = acc + pts[i] * ks[i];
            }
            acc
        }
    }
}

#[derive(Clone, Debug, Serialize, Deserialize)]
pub enum Case {
    Single { bk: Bk, p: Recipe, k: Num, form: MulForm },
    Limbs { bk: Bk, p: Recipe, limbs: Vec<u64>, form: LimbForm },
    Msm { ps: Vec<Recipe>, ks: Vec<Num>, form: MsmForm },
    /// (a+b)P = aP + bP, (ab)P = a(bP), through the library's equality and the model
    Module { bk: Bk, p: Recipe, a: Num, b: Num, form: MulForm },
    /// r*P is the identity for every identity predicate; the two min ladders agree
    Order { bk: Bk, p: Recipe },
}

fn scalar_class(k: &N) -> &'static str {
    if *k >= R.m {
        "ge-modulus"
    } else {
        classify_fe(k, &R.m)
    }
}

fn check_mul_result<B: Backend>(what: &str, got: &B::E, want: &Pt, ctx: &mut Ctx) -> Result<(), Failure> {
    ctx.sub_eval();
    if let Err(why) = judge_fast::<B>(got, want) {
        ctx.report(format!("C05|{}:{}|wrong-result", B::NAME, what), format!("{what}: {why}"))?;
    }
    Ok(())
}

fn single(bk: Bk, p: &Recipe, k: &N, form: MulForm, ctx: &mut Ctx) -> Result<(), Failure> {
    let c = &*CURVE;
    let m = p.model();
    let want = c.mul(k, &m.pt);
    ctx.class(&format!("{}:{}", bk.name(), form.name()));
    ctx.class(&format!("scalar:{}", scalar_class(k)));
    if !k.is_zero() && !k.is_one() && !c.is_identity_element(&m.pt) {
        ctx.nontrivial();
    }
    match bk {
        Bk::Ark => {
            let e = p.lib::<Ark>(&m);
            let got = ark_mul(form, e, arkf::fr(k));
            check_mul_result::<Ark>(form.name(), &got, &want, ctx)
        }
        Bk::Min => {
            let e = p.lib::<Min>(&m);
            let got = min_mul(form, e, minf::fr(k));
            check_mul_result::<Min>(form.name(), &got, &want, ctx)
        }
    }
}

fn limbs(bk: Bk, p: &Recipe, l: &[u64], form: LimbForm, ctx: &mut Ctx) -> Result<(), Failure> {
    let c = &*CURVE;
    let m = p.model();
    let k = int_of_limbs(l);
    let want = c.mul(&k, &m.pt);
    ctx.class(&format!("{}:{}", bk.name(), form.name()));
    ctx.class(&format!("scalar:{}", scalar_class(&k)));
    ctx.class(&format!("limbs:{}", l.len()));
    if !k.is_zero() && !k.is_one() && !c.is_identity_element(&m.pt) {
        ctx.nontrivial();
    }
    match bk {
        Bk::Ark => {
            let e = p.lib::<Ark>(&m);
            check_mul_result::<Ark>(form.name(), &ark_limbs(form, e, l), &want, ctx)
        }
        Bk::Min => {
            let e = p.lib::<Min>(&m);
            check_mul_result::<Min>(form.name(), &min_limbs(form, e, l), &want, ctx)?;
            // the constant-time and the variable-time ladder agree on the same limbs
            let (a, b) = (e.scalar_mul(l), e.scalar_mul_vartime(l));
            if a != b || a.vartime_compress().0 != b.vartime_compress().0 {
                ctx.report("C05|min:ladders-disagree", format!("scalar_mul and scalar_mul_vartime disagree on limbs {l:?}"))?;
            }
            Ok(())
        }
    }
}

fn msm(ps: &[Recipe], ks: &[Num], form: MsmForm, ctx: &mut Ctx) -> Result<(), Failure> {
    let c = &*CURVE;
    let n = ps.len().min(ks.len());
    let mut want = c.identity();
    let mut pts = Vec::new();
    let mut frs = Vec::new();
    let mut nt = 0;
    for i in 0..n {
        let m = ps[i].model();
        want = c.add(&want, &c.mul(&ks[i].0, &m.pt));
        pts.push(ps[i].lib::<Ark>(&m));
        frs.push(arkf::fr(&ks[i].0));
        if !ks[i].0.is_zero() && !c.is_identity_element(&m.pt) {
            nt += 1;
        }
    }
    ctx.class(&format!("ark:{}", form.name()));
    ctx.class(&format!("msm-len:{}", if n > 8 { "31-33".to_string() } else { n.to_string() }));
    if nt >= 2 {
        ctx.nontrivial();
    }
    let got = ark_msm(form, &pts, &frs);
    check_mul_result::<Ark>(form.name(), &got, &want, ctx)?;
    // ... and equals the sum of the individual products computed by the library
    let mut acc = ark::Element::IDENTITY;
    for i in 0..n {
        acc = acc + pts[i] * frs[i];
    }
    if acc != got {
        ctx.report(format!("C05|ark:{}|not-sum-of-products", form.name()), "MSM differs from the sum of the individual products")?;
    }
    Ok(())
}

fn module<B: Backend>(p: &Recipe, a: &N, b: &N, mulf: &dyn Fn(B::E, &N) -> B::E, fname: &str, ctx: &mut Ctx) -> Result<(), Failure> {
    let c = &*CURVE;
    let m = p.model();
    let e = p.lib::<B>(&m);
    ctx.class(&format!("{}:module:{}", B::NAME, fname));
    if !c.is_identity_element(&m.pt) && !a.is_zero() && !b.is_zero() {
        ctx.nontrivial();
    }
    let ab_sum = R.add(a, b);
    let ab_prod = R.mul(a, b);
    let lhs = mulf(e, &ab_sum);
    let rhs = B::add(&mulf(e, a), &mulf(e, b));
    if !B::eq(&lhs, &rhs) || B::encode(&lhs) != B::encode(&rhs) {
        ctx.report(format!("C05|{}:{}|additive", B::NAME, fname), format!("(a+b)P != aP + bP for a={a:x}, b={b:x}"))?;
    }
    check_mul_result::<B>(fname, &lhs, &c.mul(&ab_sum, &m.pt), ctx)?;
    let lhs = mulf(e, &ab_prod);
    let rhs = mulf(mulf(e, b), a);
    if !B::eq(&lhs, &rhs) || B::encode(&lhs) != B::encode(&rhs) {
        ctx.report(format!("C05|{}:{}|multiplicative", B::NAME, fname), format!("(ab)P != a(bP) for a={a:x}, b={b:x}"))?;
    }
    check_mul_result::<B>(fname, &lhs, &c.mul(&ab_prod, &m.pt), ctx)?;
    Ok(())
}

fn order(bk: Bk, p: &Recipe, ctx: &mut Ctx) -> Result<(), Failure> {
    let c = &*CURVE;
    let m = p.model();
    let rl = R.m.to_u64_digits();
    ctx.class(&format!("{}:order", bk.name()));
    if !c.is_identity_element(&m.pt) {
        ctx.nontrivial();
    }
    match bk {
        Bk::Ark => {
            use ark_ec::{AffineRepr, CurveGroup, Group};
            use ark_std::Zero as _;
            let e = p.lib::<Ark>(&m);
            for (name, x) in [("mul_bigint", e.mul_bigint(&rl)), ("affine.mul_bigint", e.into_affine().mul_bigint(&rl))] {
                let a = x.into_affine();
                let preds: [(&str, bool); 7] = [
                    ("is_identity", x.is_identity()),
                    ("Zero::is_zero", x.is_zero()),
                    ("==IDENTITY", x == AE::IDENTITY),
                    ("==default", x == AE::default()),
                    ("affine.is_zero", a.is_zero()),
                    ("affine==zero", a == AA::zero()),
                    ("encoding==0", x.vartime_compress().0 == [0u8; 32]),
                ];
                for (pn, v) in preds {
                    ctx.sub_eval();
                    if !v {
                        ctx.report(format!("C05|ark:{name}|r-times-not-identity:{pn}"), format!("r*P via {name}: identity predicate {pn} is false"))?;
                    }
                }
            }
        }
        Bk::Min => {
            let e = p.lib::<Min>(&m);
            for (name, x) in [("scalar_mul", e.scalar_mul(&rl)), ("scalar_mul_vartime", e.scalar_mul_vartime(&rl))] {
                let preds: [(&str, bool); 3] = [("is_identity", x.is_identity()), ("==IDENTITY", x == min::Element::IDENTITY), ("encoding==0", x.vartime_compress().0 == [0u8; 32])];
                for (pn, v) in preds {
                    ctx.sub_eval();
                    if !v {
                        ctx.report(format!("C05|min:{name}|r-times-not-identity:{pn}"), format!("r*P via {name}: identity predicate {pn} is false"))?;
                    }
                }
            }
        }
    }
    Ok(())
}

fn edge_scalars() -> Vec<N> {
    let r = &R.m;
    vec![
        N::zero(),
        N::one(),
        N::from(2u32),
        r - 1u32,
        r - 2u32,
        (r - 1u32) >> 1,
        (r + 1u32) >> 1,
        N::one() << 250,
        (N::one() << 250) - 1u32,
        N::from(u64::MAX),
        (N::one() << 192) - 1u32,
    ]
}

impl Property for C05 {
    type Case = Case;
    const ID: &'static str = "C05";
    fn rule(&self) -> String {
        "cases: element recipe x scalar x form: the 20 ark / 10 min operator forms with Fr scalars, integer-limb forms (Group::mul_bigint, \
         AffineRepr::mul_bigint, mul_bits_be; min scalar_mul and scalar_mul_vartime) with limb vectors of length 0..=8 (values beyond r), 6 MSM \
         forms with 0..=6 terms, module laws, and r*P under every identity predicate. Oracle: independent projective double-and-add on the model \
         (itself tested against the affine law), results compared as elements through the hook coordinates. Non-trivial: scalar not in {0,1} and \
         element not the identity (MSM: >= 2 such terms); distinct by digest"
            .into()
    }
    fn assumptions(&self) -> Vec<String> {
        vec!["for integers >= r the comparison is as elements (either coset point)".into(), "MSM with mismatched lengths is outside the property and not exercised".into()]
    }
    fn cases(&self, tier: Tier) -> u64 {
        tier.pick(16_000, 800_000)
    }
    fn strategy(&self, _tier: Tier) -> BoxedStrategy<Case> {
        let bk = || prop_oneof![4 => Just(Bk::Ark), 1 => Just(Bk::Min)];
        prop_oneof![
            6 => (bk(), recipe::recipe_small(), gen::scalar(), any::<u16>()).prop_map(|(bk, p, k, i)| {
                let fs = MulForm::of(bk);
                Case::Single { bk, p, k, form: fs[pick(i, fs.len())] }
            }),
            4 => (bk(), recipe::recipe_small(), gen::scalar_limbs(), any::<u16>()).prop_map(|(bk, p, limbs, i)| {
                let fs = LimbForm::of(bk);
                Case::Limbs { bk, p, limbs, form: fs[pick(i, fs.len())] }
            }),
            1 => (proptest::collection::vec((prop_oneof![Just(Recipe::Generator), gen::scalar().prop_map(Recipe::MulGen)], gen::scalar()), 31..=33), any::<u16>()).prop_map(|(v, i)| {
                let (ps, ks): (Vec<_>, Vec<_>) = v.into_iter().unzip();
                Case::Msm { ps, ks, form: MsmForm::ALL[pick(i, MsmForm::ALL.len())] }
            }),
            3 => (proptest::collection::vec((recipe::recipe_small(), gen::scalar()), 0..=6), any::<u16>()).prop_map(|(v, i)| {
                let (ps, ks): (Vec<_>, Vec<_>) = v.into_iter().unzip();
                Case::Msm { ps, ks, form: MsmForm::ALL[pick(i, MsmForm::ALL.len())] }
            }),
            2 => (bk(), recipe::recipe_small(), gen::scalar(), gen::scalar(), any::<u16>()).prop_map(|(bk, p, a, b, i)| {
                let fs = MulForm::of(bk);
                Case::Module { bk, p, a, b, form: fs[pick(i, fs.len())] }
            }),
            1 => (bk(), recipe::recipe()).prop_map(|(bk, p)| Case::Order { bk, p }),
        ]
        .boxed()
    }
    fn edges(&self, _tier: Tier) -> Vec<Case> {
        use Recipe::*;
        let g = || Box::new(Generator);
        let pts = vec![Generator, Torsion(Box::new(Identity)), MinusOneTimes(g()), Elligator(1u64.into()), Identity, Torsion(g())];
        let mut v = Vec::new();
        for bk in [Bk::Ark, Bk::Min] {
            for p in &pts {
                for k in edge_scalars() {
                    for f in MulForm::of(bk) {
                        v.push(Case::Single { bk, p: p.clone(), k: Num(k.clone()), form: f });
                    }
                }
                let r = &R.m;
                let limb_edges: Vec<Vec<u64>> = vec![
                    vec![],
                    vec![0],
                    vec![1],
                    vec![2],
                    r.to_u64_digits(),
                    (r + 1u32).to_u64_digits(),
                    (r - 1u32).to_u64_digits(),
                    vec![u64::MAX; 4],
                    vec![0, 0, 0, 0, 1],
                    vec![1, 0, 0, 0, 0, 0, 0, 1],
                    vec![5, 0, 0, 0, 0],
                    (N::one() << 250u32).to_u64_digits(),
                ];
                for l in limb_edges {
                    for f in LimbForm::of(bk) {
                        v.push(Case::Limbs { bk, p: p.clone(), limbs: l.clone(), form: f });
                    }
                }
                v.push(Case::Order { bk, p: p.clone() });
            }
        }
        for f in MsmForm::ALL {
            v.push(Case::Msm { ps: vec![], ks: vec![], form: *f });
            v.push(Case::Msm { ps: vec![Generator], ks: vec![3u64.into()], form: *f });
            v.push(Case::Msm { ps: vec![Generator, Torsion(g()), Elligator(5u64.into())], ks: vec![Num(&R.m - 1u32), 2u64.into(), Num(N::one() << 200)], form: *f });
            // the window-size switch points of ark-ec's bucket MSM, with top-bit scalars
            for n in [31usize, 32, 33] {
                let ps: Vec<Recipe> = (0..n).map(|i| MulGen((i as u64 + 1).into())).collect();
                let ks: Vec<Num> = (0..n).map(|i| if i % 3 == 0 { Num(&R.m - 1u32 - N::from(i as u32)) } else if i % 3 == 1 { Num(N::one() << 250) } else { Num(N::from(7u32 + i as u32)) }).collect();
                v.push(Case::Msm { ps, ks, form: *f });
            }
        }
        v
    }
    fn check(&self, case: &Case, ctx: &mut Ctx) -> Result<(), Failure> {
        match case {
            Case::Single { bk, p, k, form } => {
                let ok = match bk { Bk::Ark => form.in_ark(), Bk::Min => form.in_min() };
                if !ok || k.0 >= R.m {
                    ctx.excluded();
                    return Ok(());
                }
                single(*bk, p, &k.0, *form, ctx)
            }
            Case::Limbs { bk, p, limbs: l, form } => {
                let ok = match bk { Bk::Ark => form.in_ark(), Bk::Min => form.in_min() };
                if !ok {
                    ctx.excluded();
                    return Ok(());
                }
                limbs(*bk, p, l, *form, ctx)
            }
            Case::Msm { ps, ks, form } => {
                if ks.iter().any(|k| k.0 >= R.m) {
                    ctx.excluded();
                    return Ok(());
                }
                msm(ps, ks, *form, ctx)
            }
            Case::Module { bk, p, a, b, form } => {
                if a.0 >= R.m || b.0 >= R.m {
                    ctx.excluded();
                    return Ok(());
                }
                match bk {
                    Bk::Ark => module::<Ark>(p, &a.0, &b.0, &|e, k| ark_mul(*form, e, arkf::fr(k)), form.name(), ctx),
                    Bk::Min => {
                        if !form.in_min() {
                            ctx.excluded();
                            return Ok(());
                        }
                        module::<Min>(p, &a.0, &b.0, &|e, k| min_mul(*form, e, minf::fr(k)), form.name(), ctx)
                    }
                }
            }
            Case::Order { bk, p } => order(*bk, p, ctx),
        }
    }
    fn shrink_candidates(&self, case: &Case) -> Vec<Case> {
        let mut v = Vec::new();
        match case {
            Case::Single { bk, p, k, form } => {
                for s in p.shrinks() {
                    v.push(Case::Single { bk: *bk, p: s, k: k.clone(), form: *form });
                }
            }
            Case::Limbs { bk, p, limbs, form } => {
                for s in p.shrinks() {
                    v.push(Case::Limbs { bk: *bk, p: s, limbs: limbs.clone(), form: *form });
                }
                for i in 0..limbs.len() {
                    let mut l = limbs.clone();
                    l.remove(i);
                    v.push(Case::Limbs { bk: *bk, p: p.clone(), limbs: l, form: *form });
                }
            }
            Case::Msm { ps, ks, form } => {
                for i in 0..ps.len().min(ks.len()) {
                    let (mut a, mut b) = (ps.clone(), ks.clone());
                    a.remove(i);
                    b.remove(i);
                    v.push(Case::Msm { ps: a, ks: b, form: *form });
                }
                for (i, p) in ps.iter().enumerate() {
                    for s in p.shrinks() {
                        let mut a = ps.clone();
                        a[i] = s;
                        v.push(Case::Msm { ps: a, ks: ks.clone(), form: *form });
                    }
                }
            }
            Case::Module { bk, p, a, b, form } => {
                for s in p.shrinks() {
                    v.push(Case::Module { bk: *bk, p: s, a: a.clone(), b: b.clone(), form: *form });
                }
            }
            Case::Order { bk, p } => {
                for s in p.shrinks() {
                    v.push(Case::Order { bk: *bk, p: s });
                }
            }
        }
        v
    }
    fn required_classes(&self, _tier: Tier) -> Vec<String> {
        let mut v = Vec::new();
        for bk in [Bk::Ark, Bk::Min] {
            for f in MulForm::of(bk) {
                v.push(format!("{}:{}", bk.name(), f.name()));
            }
            for f in LimbForm::of(bk) {
                v.push(format!("{}:{}", bk.name(), f.name()));
            }
        }
        for f in MsmForm::ALL {
            v.push(format!("ark:{}", f.name()));
        }
        v.push("scalar:ge-modulus".into());
        v.push("limbs:0".into());
        v.push("limbs:8".into());
        v
    }
}
