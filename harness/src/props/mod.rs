use crate::engine::{replay_property, run_property, Env, Tier};
use std::path::Path;

pub mod common;
pub mod c01;
pub mod c02;
pub mod c03;
pub mod c04;
pub mod c05;
pub mod c06;
pub mod c07;
pub mod c08;
pub mod c09;
pub mod c10;
pub mod c11;
pub mod c12;
pub mod c13;
pub mod c14;
pub mod c15;
pub mod c16;
pub mod c17;

pub const IDS: &[&str] = &["C01", "C02", "C03", "C04", "C05", "C06", "C07", "C08", "C09", "C10", "C11", "C12", "C13", "C14", "C15", "C16", "C17"];

macro_rules! dispatch {
    ($id:expr, $f:ident, $($arg:expr),*) => {
        match $id {
            "C01" => $f(&c01::C01, $($arg),*),
            "C02" => $f(&c02::C02, $($arg),*),
            "C03" => $f(&c03::C03, $($arg),*),
            "C04" => $f(&c04::C04, $($arg),*),
            "C05" => $f(&c05::C05, $($arg),*),
            "C06" => $f(&c06::C06, $($arg),*),
            "C07" => $f(&c07::C07, $($arg),*),
            "C08" => $f(&c08::C08, $($arg),*),
            "C09" => $f(&c09::C09, $($arg),*),
            "C10" => $f(&c10::C10, $($arg),*),
            "C11" => $f(&c11::C11, $($arg),*),
            "C12" => $f(&c12::C12, $($arg),*),
            "C13" => $f(&c13::C13, $($arg),*),
            "C14" => $f(&c14::C14, $($arg),*),
            "C15" => $f(&c15::C15, $($arg),*),
            "C16" => $f(&c16::C16, $($arg),*),
            "C17" => $f(&c17::C17, $($arg),*),
            other => {
                eprintln!("unknown property {other}");
                2
            }
        }
    };
}

pub fn run(id: &str, tier: Tier, env: &Env) -> i32 {
    dispatch!(id, run_property, tier, env)
}
pub fn replay(id: &str, path: &Path, env: &Env) -> i32 {
    dispatch!(id, replay_property, path, env)
}
