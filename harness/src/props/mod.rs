use crate::engine::{replay_property, run_property, Env, Tier};
use std::path::Path;

pub mod common;
pub mod c01;

pub const IDS: &[&str] = &["C01"];

macro_rules! dispatch {
    ($id:expr, $f:ident, $($arg:expr),*) => {
        match $id {
            "C01" => $f(&c01::C01, $($arg),*),
            other => {
                eprintln!("unknown property {other}");
                2
            }
        }
    };
}

pub fn run(id: &str, tier: Tier, env: &Env) -> i32 {
    dispatch!(id, run_property, tier, env)
}
pub fn replay(id: &str, path: &Path, env: &Env) -> i32 {
    dispatch!(id, replay_property, path, env)
}
