//! C12 — the arkworks and the minimal backend are observationally identical
//! (DESIGN §5/C12). One generated input is fed to both libraries in the same process;
//! after every step the observable bytes must be identical.

use crate::api::{ark, arkf, min, minf, Ark, Backend, Min};
use crate::engine::{Ctx, Failure, Property, Tier};
use crate::gen::{self, pick, HexBytes, Num};
use crate::props::c04::{self, Form};
use crate::props::c05::{self, MulForm};
use crate::props::c10::{self, forms_for, FId, Step};
use crate::props::common::{bytes32_near, Bk, Bytes32};
use crate::recipe::{self, Recipe};
use crate::refmodel::{N, Q, R};
use proptest::prelude::*;
use serde::{Deserialize, Serialize};
use std::convert::TryFrom;

pub struct C12;

#[derive(Clone, Debug, Serialize, Deserialize, PartialEq, Eq, Hash)]
pub enum GInstr {
    /// a group operator form both configurations offer
    Op { dst: u8, form: Form, a: u8, b: u8 },
    /// multiplication by a scalar-field element, operator form
    Mul { dst: u8, form: MulForm, a: u8, k: Num },
    /// multiplication by an integer given as limbs: ark mul_bigint vs min scalar_mul / scalar_mul_vartime
    MulLimbs { dst: u8, a: u8, limbs: Vec<u64>, ct: bool },
    /// re-decode the register's own encoding
    Redecode { dst: u8, a: u8 },
}

#[derive(Clone, Debug, Serialize, Deserialize)]
pub enum Case {
    FieldChain { f: FId, init: Num, steps: Vec<Step> },
    FieldBytes { f: FId, bytes: HexBytes },
    Decode { b: Bytes32 },
    Slice { bytes: HexBytes },
    Hash { r1: Num, r2: Num },
    Program { regs: Vec<Recipe>, prog: Vec<GInstr> },
    Constants,
}

fn diff(ctx: &mut Ctx, what: &str, a: &dyn std::fmt::Debug, m: &dyn std::fmt::Debug, input: String) -> Result<(), Failure> {
    ctx.report(format!("C12|{what}"), format!("{what}: ark gives {a:?}, min gives {m:?} on {input}"))
}

macro_rules! field_bytes {
    ($A:ty, $M:ty, $NB:expr, $name:expr, $bytes:expr, $ctx:expr) => {{
        let b: &[u8] = $bytes;
        let ctx: &mut Ctx = $ctx;
        ctx.sub_eval();
        let (a, m) = (<$A>::from_le_bytes_mod_order(b).to_bytes_le(), <$M>::from_le_bytes_mod_order(b).to_bytes_le());
        if a != m {
            diff(ctx, &format!("{}::from_le_bytes_mod_order", $name), &hex::encode(a), &hex::encode(m), hex::encode(b))?;
        }
        if b.len() >= $NB {
            let mut arr = [0u8; $NB];
            arr.copy_from_slice(&b[..$NB]);
            let a = <$A>::from_bytes_checked(&arr).map(|x| (hex::encode(x.to_bytes_le()), hex::encode(x.to_bytes()))).map_err(|e| format!("{e:?}"));
            let m = <$M>::from_bytes_checked(&arr).map(|x| (hex::encode(x.to_bytes_le()), hex::encode(x.to_bytes()))).map_err(|e| format!("{e:?}"));
            if a != m {
                diff(ctx, &format!("{}::from_bytes_checked", $name), &a, &m, hex::encode(arr))?;
            }
        }
        // integer conversions and comparisons on values derived from the same bytes
        let lo = u128::from_le_bytes({ let mut t = [0u8; 16]; for (i, x) in b.iter().take(16).enumerate() { t[i] = *x; } t });
        let a = [<$A>::from(lo).to_bytes_le(), <$A>::from(lo as u64).to_bytes_le(), <$A>::from(lo as u32).to_bytes_le(), <$A>::from(lo as u16).to_bytes_le(), <$A>::from(lo as u8).to_bytes_le(), <$A>::from(lo & 1 == 1).to_bytes_le()];
        let m = [<$M>::from(lo).to_bytes_le(), <$M>::from(lo as u64).to_bytes_le(), <$M>::from(lo as u32).to_bytes_le(), <$M>::from(lo as u16).to_bytes_le(), <$M>::from(lo as u8).to_bytes_le(), <$M>::from(lo & 1 == 1).to_bytes_le()];
        if a != m {
            diff(ctx, &format!("{}::From<uN>", $name), &"(bytes differ)", &"(bytes differ)", format!("{lo}"))?;
        }
        let half = b.len() / 2;
        let (xa, ya) = (<$A>::from_le_bytes_mod_order(&b[..half]), <$A>::from_le_bytes_mod_order(&b[half..]));
        let (xm, ym) = (<$M>::from_le_bytes_mod_order(&b[..half]), <$M>::from_le_bytes_mod_order(&b[half..]));
        if xa.cmp(&ya) != xm.cmp(&ym) || (xa == ya) != (xm == ym) {
            diff(ctx, &format!("{}::Ord/Eq", $name), &xa.cmp(&ya), &xm.cmp(&ym), hex::encode(b))?;
        }
        // close pairs: x against x + 2^k and x + 2^k - 2^j (a comparison that mishandles one limb boundary only
        // shows when the operands agree everywhere above it)
        for k in [0u32, 1, 30, 31, 32, 33, 62, 63, 64, 65, 95, 96, 97, 127] {
            let (da, dm) = (<$A>::from(1u128 << k), <$M>::from(1u128 << k));
            let (ea, em) = (<$A>::from((1u128 << k) - (1u128 << (k / 2))), <$M>::from((1u128 << k) - (1u128 << (k / 2))));
            for (pa, pm) in [(xa + da, xm + dm), (xa + ea, xm + em), (xa - da, xm - dm)] {
                if xa.cmp(&pa) != xm.cmp(&pm) || pa.cmp(&xa) != pm.cmp(&xm) || (xa == pa) != (xm == pm) || (xa < pa) != (xm < pm) {
                    diff(ctx, &format!("{}::Ord/Eq", $name), &xa.cmp(&pa), &xm.cmp(&pm), format!("{} against itself +- 2^{k}", hex::encode(xa.to_bytes_le())))?;
                }
            }
        }
        Ok::<(), Failure>(())
    }};
}

type DecOut = Result<([u8; 32], [u8; 32], bool), String>;

fn decode_all(b: &[u8; 32], ctx: &mut Ctx) -> Result<(), Failure> {
    let obs_a = |r: Result<ark::Element, ark::EncodingError>| -> DecOut { r.map(|e| (e.vartime_compress().0, e.vartime_compress_to_field().to_bytes(), e.is_identity())).map_err(|e| format!("{e:?}")) };
    let obs_m = |r: Result<min::Element, min::EncodingError>| -> DecOut { r.map(|e| (e.vartime_compress().0, e.vartime_compress_to_field().to_bytes(), e.is_identity())).map_err(|e| format!("{e:?}")) };
    let (ea, em) = (ark::Encoding(*b), min::Encoding(*b));
    let pairs: [(&str, DecOut, DecOut); 6] = [
        ("vartime_decompress", obs_a(ea.vartime_decompress()), obs_m(em.vartime_decompress())),
        ("TryFrom<&Encoding>", obs_a(ark::Element::try_from(&ea)), obs_m(min::Element::try_from(&em))),
        ("TryFrom<Encoding>", obs_a(ark::Element::try_from(ea)), obs_m(min::Element::try_from(em))),
        ("TryFrom<&[u8]>", obs_a(ark::Element::try_from(&b[..])), obs_m(min::Element::try_from(&b[..]))),
        ("TryFrom<[u8;32]>", obs_a(ark::Element::try_from(*b)), obs_m(min::Element::try_from(*b))),
        (
            "Encoding::try_from(&[u8])",
            obs_a(ark::Encoding::try_from(&b[..]).and_then(|e| e.vartime_decompress())),
            obs_m(min::Encoding::try_from(&b[..]).and_then(|e| e.vartime_decompress())),
        ),
    ];
    for (name, a, m) in pairs {
        ctx.sub_eval();
        ctx.class(&format!("decode:{name}"));
        if a != m {
            diff(ctx, &format!("decode:{name}"), &a.map(|x| (hex::encode(x.0), x.2)), &m.map(|x| (hex::encode(x.0), x.2)), hex::encode(b))?;
        }
    }
    Ok(())
}

fn observe<B: Backend>(regs: &[B::E], d: usize) -> (Vec<u8>, Vec<u8>, bool, Vec<bool>) {
    let e = &regs[d];
    let enc = B::encode(e).to_vec();
    let fld = B::encode_field(e).to_bytes_le();
    (enc, fld, B::is_identity(e), regs.iter().map(|o| B::eq(e, o)).collect())
}

fn program(regs: &[Recipe], prog: &[GInstr], ctx: &mut Ctx) -> Result<(), Failure> {
    let mut ra: Vec<ark::Element> = Vec::new();
    let mut rm: Vec<min::Element> = Vec::new();
    for r in regs {
        let m = r.model();
        ra.push(r.lib::<Ark>(&m));
        rm.push(r.lib::<Min>(&m));
    }
    while ra.len() < c04::NREG {
        ra.push(ark::Element::IDENTITY);
        rm.push(min::Element::IDENTITY);
    }
    for d in 0..c04::NREG {
        let (oa, om) = (observe::<Ark>(&ra, d), observe::<Min>(&rm, d));
        if oa != om {
            return diff(ctx, "register-init", &(hex::encode(&oa.0), oa.2, &oa.3), &(hex::encode(&om.0), om.2, &om.3), format!("register {d} from {:?}", regs.get(d)));
        }
    }
    let nr = c04::NREG;
    for (i, ins) in prog.iter().enumerate() {
        let d = match ins {
            GInstr::Op { dst, form, a, b } => {
                if !form.in_min() || !form.in_ark() {
                    ctx.excluded();
                    continue;
                }
                ctx.class(&format!("op:{}", form.name()));
                let (a, b, d) = (*a as usize % nr, *b as usize % nr, *dst as usize % nr);
                let va = c04::apply_ark(*form, ra[a], ra[b], ra[b]);
                let vm = c04::apply_min(*form, rm[a], rm[b], rm[b]);
                ra[d] = va;
                rm[d] = vm;
                d
            }
            GInstr::Mul { dst, form, a, k } => {
                if !form.in_min() || k.0 >= R.m {
                    ctx.excluded();
                    continue;
                }
                ctx.class(&format!("mul:{}", form.name()));
                let (a, d) = (*a as usize % nr, *dst as usize % nr);
                ra[d] = c05::ark_mul(*form, ra[a], arkf::fr(&k.0));
                rm[d] = c05::min_mul(*form, rm[a], minf::fr(&k.0));
                d
            }
            GInstr::MulLimbs { dst, a, limbs, ct } => {
                ctx.class(if *ct { "mul-limbs:scalar_mul" } else { "mul-limbs:scalar_mul_vartime" });
                let (a, d) = (*a as usize % nr, *dst as usize % nr);
                ra[d] = Ark::mul_limbs(&ra[a], limbs);
                rm[d] = if *ct { rm[a].scalar_mul(limbs) } else { rm[a].scalar_mul_vartime(limbs) };
                d
            }
            GInstr::Redecode { dst, a } => {
                ctx.class("redecode");
                let (a, d) = (*a as usize % nr, *dst as usize % nr);
                let xa = ark::Encoding(ra[a].vartime_compress().0).vartime_decompress();
                let xm = min::Encoding(rm[a].vartime_compress().0).vartime_decompress();
                match (xa, xm) {
                    (Ok(x), Ok(y)) => {
                        ra[d] = x;
                        rm[d] = y;
                    }
                    (x, y) => {
                        return diff(ctx, "redecode-verdict", &x.map(|_| "ok").map_err(|e| format!("{e:?}")), &y.map(|_| "ok").map_err(|e| format!("{e:?}")), format!("instruction {i}"));
                    }
                }
                d
            }
        };
        ctx.sub_eval();
        let (oa, om) = (observe::<Ark>(&ra, d), observe::<Min>(&rm, d));
        if oa != om {
            let what = match ins {
                GInstr::Op { form, .. } => format!("program:{}", form.name()),
                GInstr::Mul { form, .. } => format!("program:{}", form.name()),
                GInstr::MulLimbs { ct, .. } => format!("program:mul-limbs:{}", if *ct { "ct" } else { "vartime" }),
                GInstr::Redecode { .. } => "program:redecode".to_string(),
            };
            return diff(ctx, &what, &(hex::encode(&oa.0), hex::encode(&oa.1), oa.2, &oa.3), &(hex::encode(&om.0), hex::encode(&om.1), om.2, &om.3), format!("instruction {i}: {ins:?}"));
        }
    }
    Ok(())
}

fn shared_forms() -> Vec<Form> {
    c04::ALL_FORMS.iter().copied().filter(|f| f.in_ark() && f.in_min()).collect()
}

fn ginstr() -> BoxedStrategy<GInstr> {
    let sf = shared_forms();
    let mf = MulForm::of(Bk::Min);
    let n = c04::NREG as u8;
    prop_oneof![
        6 => (0..n, any::<u16>(), 0..n, 0..n).prop_map(move |(dst, i, a, b)| GInstr::Op { dst, form: sf[pick(i, sf.len())], a, b }),
        2 => (0..n, any::<u16>(), 0..n, gen::scalar()).prop_map(move |(dst, i, a, k)| GInstr::Mul { dst, form: mf[pick(i, mf.len())], a, k }),
        1 => (0..n, 0..n, gen::scalar_limbs(), any::<bool>()).prop_map(|(dst, a, limbs, ct)| GInstr::MulLimbs { dst, a, limbs, ct }),
        1 => (0..n, 0..n).prop_map(|(dst, a)| GInstr::Redecode { dst, a }),
    ]
    .boxed()
}

fn field_chain(f: FId) -> BoxedStrategy<Case> {
    let m = f.fld().m.clone();
    // forms both backends offer for this field
    let forms: Vec<c10::FForm> = forms_for(Bk::Min, f);
    (gen::fe(&m), proptest::collection::vec(c10::step(forms, m.clone()), 1..=8)).prop_map(move |(init, steps)| Case::FieldChain { f, init, steps }).boxed()
}

impl Property for C12 {
    type Case = Case;
    const ID: &'static str = "C12";
    fn rule(&self) -> String {
        // (close pairs x vs x +- 2^k are part of the Ord/Eq differential)
        "differential: one generated input fed to the arkworks and to the minimal configuration in the same process. Cases: field operation chains \
         over all shared forms (Fq/Fr/Fp), field byte parsing / reduction / integer conversion / ordering on byte strings of length 0..=200, all \
         six shared decode entry points on near-miss 32-byte strings and slices of other lengths, Elligator map and two-input hash, constants, and \
         group programs (1..=12 instructions over the 14 shared operator forms, 10 scalar forms, integer ladders, re-decoding; registers from element \
         recipes). Oracle: identical observables after every step (verdicts and error variants, 32-byte encodings, field bytes, is_identity, == with \
         every register). Non-trivial: program with >= 3 group instructions, or a single call with a structured input; distinct by digest"
            .into()
    }
    fn assumptions(&self) -> Vec<String> {
        vec![
            "internal coordinates legitimately differ between the backends and are not compared".into(),
            "the differential says which backend is wrong only together with C01-C11, where each backend is compared with the model".into(),
        ]
    }
    fn cases(&self, tier: Tier) -> u64 {
        tier.pick(60_000, 3_000_000)
    }
    fn strategy(&self, tier: Tier) -> BoxedStrategy<Case> {
        let max_prog = tier.pick(12, 30) as usize;
        prop_oneof![
            2 => field_chain(FId::Fq),
            1 => field_chain(FId::Fr),
            1 => field_chain(FId::Fp),
            3 => (prop_oneof![Just(FId::Fq), Just(FId::Fr), Just(FId::Fp)], gen::bytes(0..=200usize)).prop_map(|(f, b)| Case::FieldBytes { f, bytes: HexBytes(b) }),
            5 => bytes32_near().prop_map(|b| Case::Decode { b }),
            1 => gen::bytes(0..=80usize).prop_map(|b| Case::Slice { bytes: HexBytes(b) }),
            2 => (gen::fq_special(), gen::fq_special()).prop_map(|(r1, r2)| Case::Hash { r1, r2 }),
            1 => (gen::r0_targeted(), prop_oneof![Just(Num(N::from(0u32))), gen::r0_targeted()]).prop_map(|(r1, r2)| Case::Hash { r1, r2 }),
            2 => (proptest::collection::vec(recipe::recipe_small(), 2..=4), proptest::collection::vec(ginstr(), 1..=max_prog)).prop_map(|(regs, prog)| Case::Program { regs, prog }),
        ]
        .boxed()
    }
    fn edges(&self, _tier: Tier) -> Vec<Case> {
        use Recipe::*;
        let mut v = vec![Case::Constants];
        for b in crate::props::common::boundary_values() {
            v.push(Case::Decode { b: Bytes32::new("boundary", &b) });
        }
        for r in [0u32, 1, 2, 3, 4, 5, 7, 9, 1000003] {
            v.push(Case::Hash { r1: Num(N::from(r)), r2: Num(Q.neg(&N::from(r))) });
            v.push(Case::Hash { r1: Num(N::from(r)), r2: Num(N::from(r)) });
        }
        let g = || Box::new(Generator);
        let regs = vec![Generator, Torsion(g()), MinusOneTimes(g()), Elligator(3u64.into())];
        for f in shared_forms() {
            for (a, b) in [(0u8, 1u8), (0, 2), (2, 0), (3, 3), (0, 4)] {
                v.push(Case::Program { regs: regs.clone(), prog: vec![GInstr::Op { dst: 4, form: f, a, b }] });
            }
        }
        for f in MulForm::of(Bk::Min) {
            for k in [0u64, 1, 2, u64::MAX] {
                v.push(Case::Program { regs: regs.clone(), prog: vec![GInstr::Mul { dst: 4, form: f, a: 0, k: k.into() }] });
            }
            v.push(Case::Program { regs: regs.clone(), prog: vec![GInstr::Mul { dst: 4, form: f, a: 3, k: Num(&R.m - 1u32) }, GInstr::Op { dst: 4, form: Form::AddValVal, a: 4, b: 3 }] });
        }
        for l in [vec![], vec![0u64], vec![1, 0, 0, 0, 1], R.m.to_u64_digits(), vec![0, 1], vec![0, 0, 1], vec![u64::MAX; 5]] {
            for ct in [false, true] {
                v.push(Case::Program { regs: regs.clone(), prog: vec![GInstr::MulLimbs { dst: 4, a: 0, limbs: l.clone(), ct }] });
            }
        }
        for len in 0..=80usize {
            v.push(Case::Slice { bytes: HexBytes(vec![0u8; len]) });
        }
        v
    }
    fn check(&self, case: &Case, ctx: &mut Ctx) -> Result<(), Failure> {
        match case {
            Case::FieldChain { f, init, steps } => {
                ctx.class(&format!("field-chain:{}", f.name()));
                ctx.nontrivial();
                let (mut ta, mut tm) = (Vec::new(), Vec::new());
                let mut scratch = ctx.scratch();
                let _ = c10::run_chain_traced(Bk::Ark, *f, &init.0, steps, &mut scratch, Some(&mut ta));
                let mut scratch = ctx.scratch();
                let _ = c10::run_chain_traced(Bk::Min, *f, &init.0, steps, &mut scratch, Some(&mut tm));
                ctx.sub_eval();
                if ta != tm {
                    let i = ta.iter().zip(tm.iter()).position(|(a, b)| a != b).unwrap_or(ta.len().min(tm.len()));
                    return diff(ctx, &format!("field-chain:{}:{}", f.name(), steps.get(i).map(|s| s.form.name()).unwrap_or("length")), &ta.get(i).map(hex::encode), &tm.get(i).map(hex::encode), format!("step {i} of {steps:?} from {init:?}"));
                }
                Ok(())
            }
            Case::FieldBytes { f, bytes } => {
                ctx.class(&format!("field-bytes:{}", f.name()));
                if bytes.0.len() != f.fld().nbytes {
                    ctx.nontrivial();
                }
                match f {
                    FId::Fq => field_bytes!(ark::Fq, min::Fq, 32, "Fq", &bytes.0, ctx),
                    FId::Fr => field_bytes!(ark::Fr, min::Fr, 32, "Fr", &bytes.0, ctx),
                    FId::Fp => field_bytes!(ark::Fp, min::Fp, 48, "Fp", &bytes.0, ctx),
                }
            }
            Case::Decode { b } => {
                ctx.class(&format!("decode-family:{}", b.family));
                if !b.family.starts_with("uniform") {
                    ctx.nontrivial();
                }
                decode_all(&b.arr(), ctx)
            }
            Case::Slice { bytes } => {
                ctx.class("slice");
                if bytes.0.len() == 32 {
                    let mut a = [0u8; 32];
                    a.copy_from_slice(&bytes.0);
                    return decode_all(&a, ctx);
                }
                ctx.nontrivial();
                let a = (ark::Element::try_from(&bytes.0[..]).map(|_| ()).map_err(|e| format!("{e:?}")), ark::Encoding::try_from(&bytes.0[..]).map(|_| ()).map_err(|e| format!("{e:?}")));
                let m = (min::Element::try_from(&bytes.0[..]).map(|_| ()).map_err(|e| format!("{e:?}")), min::Encoding::try_from(&bytes.0[..]).map(|_| ()).map_err(|e| format!("{e:?}")));
                if a != m {
                    return diff(ctx, "slice-verdict", &a, &m, format!("{} bytes", bytes.0.len()));
                }
                Ok(())
            }
            Case::Hash { r1, r2 } => {
                if r1.0 >= Q.m || r2.0 >= Q.m {
                    ctx.excluded();
                    return Ok(());
                }
                ctx.class("hash");
                ctx.nontrivial();
                let a = [Ark::encode(&Ark::elligator(&r1.0)), Ark::encode(&Ark::elligator(&r2.0)), Ark::encode(&Ark::hash2(&r1.0, &r2.0))];
                let m = [Min::encode(&Min::elligator(&r1.0)), Min::encode(&Min::elligator(&r2.0)), Min::encode(&Min::hash2(&r1.0, &r2.0))];
                for (i, name) in ["encode_to_curve(r1)", "encode_to_curve(r2)", "hash_to_curve(r1,r2)"].iter().enumerate() {
                    ctx.sub_eval();
                    if a[i] != m[i] {
                        return diff(ctx, name, &hex::encode(a[i]), &hex::encode(m[i]), format!("r1={r1:?} r2={r2:?}"));
                    }
                }
                let ia = Ark::is_identity(&Ark::hash2(&r1.0, &r2.0));
                let im = Min::is_identity(&Min::hash2(&r1.0, &r2.0));
                if ia != im {
                    return diff(ctx, "hash_to_curve.is_identity", &ia, &im, format!("r1={r1:?} r2={r2:?}"));
                }
                Ok(())
            }
            Case::Program { regs, prog } => {
                if prog.len() >= 3 {
                    ctx.nontrivial();
                }
                program(regs, prog, ctx)
            }
            Case::Constants => {
                ctx.nontrivial();
                ctx.class("constants");
                let a = [ark::ZETA.to_bytes_le().to_vec(), ark::Element::GENERATOR.vartime_compress().0.to_vec(), ark::Element::IDENTITY.vartime_compress().0.to_vec(), ark::Fq::ONE.to_bytes_le().to_vec(), ark::Fr::ONE.to_bytes_le().to_vec(), ark::Fp::ONE.to_bytes_le().to_vec(), ark::Fp::MINUS_ONE.to_bytes_le().to_vec(), ark::Fp::QUADRATIC_NON_RESIDUE.to_bytes_le().to_vec()];
                let m = [min::ZETA.to_bytes_le().to_vec(), min::Element::GENERATOR.vartime_compress().0.to_vec(), min::Element::IDENTITY.vartime_compress().0.to_vec(), min::Fq::ONE.to_bytes_le().to_vec(), min::Fr::ONE.to_bytes_le().to_vec(), min::Fp::ONE.to_bytes_le().to_vec(), min::Fp::MINUS_ONE.to_bytes_le().to_vec(), min::Fp::QUADRATIC_NON_RESIDUE.to_bytes_le().to_vec()];
                if a != m {
                    return diff(ctx, "constants", &a.iter().map(hex::encode).collect::<Vec<_>>(), &m.iter().map(hex::encode).collect::<Vec<_>>(), "ZETA, GENERATOR, IDENTITY, ONEs, Fp::MINUS_ONE, Fp::QUADRATIC_NON_RESIDUE".into());
                }
                macro_rules! consts { ($A:ty, $M:ty, $n:expr) => {
                    if <$A>::MODULUS_LIMBS != <$M>::MODULUS_LIMBS || <$A>::MODULUS_MINUS_ONE_DIV_TWO_LIMBS != <$M>::MODULUS_MINUS_ONE_DIV_TWO_LIMBS || <$A>::MODULUS_BIT_SIZE != <$M>::MODULUS_BIT_SIZE
                        || <$A>::TRACE_LIMBS != <$M>::TRACE_LIMBS || <$A>::TRACE_MINUS_ONE_DIV_TWO_LIMBS != <$M>::TRACE_MINUS_ONE_DIV_TWO_LIMBS || <$A>::TWO_ADICITY != <$M>::TWO_ADICITY
                        || <$A>::MULTIPLICATIVE_GENERATOR.to_bytes_le() != <$M>::MULTIPLICATIVE_GENERATOR.to_bytes_le() || <$A>::TWO_ADIC_ROOT_OF_UNITY.to_bytes_le() != <$M>::TWO_ADIC_ROOT_OF_UNITY.to_bytes_le()
                        || <$A>::FIELD_SIZE_POWER_OF_TWO.to_bytes_le() != <$M>::FIELD_SIZE_POWER_OF_TWO.to_bytes_le() || <$A>::ZERO.to_bytes_le() != <$M>::ZERO.to_bytes_le() {
                        return diff(ctx, concat!("constants:", $n), &"(differ)", &"(differ)", "inherent field constants".into());
                    }
                } }
                consts!(ark::Fq, min::Fq, "Fq");
                consts!(ark::Fr, min::Fr, "Fr");
                consts!(ark::Fp, min::Fp, "Fp");
                if ark::Fq::QUADRATIC_NON_RESIDUE_TO_TRACE.to_bytes_le() != min::Fq::QUADRATIC_NON_RESIDUE_TO_TRACE.to_bytes_le() || ark::Fp::QUADRATIC_NON_RESIDUE_TO_TRACE.to_bytes_le() != min::Fp::QUADRATIC_NON_RESIDUE_TO_TRACE.to_bytes_le() {
                    return diff(ctx, "constants:QNR_TO_TRACE", &"(differ)", &"(differ)", "".into());
                }
                Ok(())
            }
        }
    }
    fn shrink_candidates(&self, case: &Case) -> Vec<Case> {
        let mut v = Vec::new();
        match case {
            Case::Program { regs, prog } => {
                for i in 0..prog.len() {
                    let mut p = prog.clone();
                    p.remove(i);
                    v.push(Case::Program { regs: regs.clone(), prog: p });
                }
                for (i, r) in regs.iter().enumerate() {
                    for s in r.shrinks() {
                        let mut rs = regs.clone();
                        rs[i] = s;
                        v.push(Case::Program { regs: rs, prog: prog.clone() });
                    }
                }
            }
            Case::FieldChain { f, init, steps } => {
                for i in 0..steps.len() {
                    let mut s = steps.clone();
                    s.remove(i);
                    if !s.is_empty() {
                        v.push(Case::FieldChain { f: *f, init: init.clone(), steps: s });
                    }
                }
            }
            _ => {}
        }
        v
    }
    fn required_classes(&self, _tier: Tier) -> Vec<String> {
        let mut v: Vec<String> = shared_forms().iter().map(|f| format!("op:{}", f.name())).collect();
        v.extend(MulForm::of(Bk::Min).iter().map(|f| format!("mul:{}", f.name())));
        for s in ["mul-limbs:scalar_mul", "mul-limbs:scalar_mul_vartime", "redecode", "hash", "constants", "slice", "field-chain:Fq", "field-chain:Fr", "field-chain:Fp", "field-bytes:Fq", "field-bytes:Fr", "field-bytes:Fp", "decode:vartime_decompress"] {
            v.push(s.to_string());
        }
        v
    }
}
