//! C03 — encoding depends only on the group element and equals the specified encoding
//! (DESIGN §5/C03).

use crate::api::{ark, arkf, min, minf, Ark, Backend, Min};
use crate::engine::{Ctx, Failure, Property, Tier};
use crate::props::common::{backend, Bk};
use crate::recipe::{self, judge_with, Recipe};
use crate::refmodel::{CURVE, N, R};
use crate::with_backend;
use proptest::prelude::*;
use serde::{Deserialize, Serialize};

pub struct C03;

#[derive(Clone, Debug, Serialize, Deserialize)]
pub enum Case {
    /// several representations of the element of `base` (built from `base` and the helper `s`)
    Group { bk: Bk, base: Recipe, s: Recipe },
    /// injectivity: unequal elements encode differently
    Pair { bk: Bk, r1: Recipe, r2: Recipe },
}

/// representations of the element of `e` (model point `pt`), built through the public API
pub fn members<B: Backend>(e: &B::E, s: &B::E, pt: &crate::refmodel::Pt) -> Vec<(&'static str, B::E)> {
    let half = (&R.m + 1u32) >> 1;
    let rm1 = &R.m - 1u32;
    let t2 = recipe::t2::<B>();
    let add_sub = B::sub(&B::add(e, s), s);
    vec![
        ("base", *e),
        ("torsion", B::add(e, &t2)),
        ("add-sub", add_sub),
        ("affine-roundtrip", B::affine_roundtrip(e)),
        ("neg-neg", B::neg(&B::neg(e))),
        ("minus-one-times-neg", B::mul_fr(&B::neg(e), &rm1)),
        ("double-of-half", B::double(&B::mul_fr(e, &half))),
        ("redecode", B::decode(&CURVE.encode_bytes(pt)).unwrap_or_else(|err| panic!("{}: decoding the model's canonical encoding failed: {err:?}", B::NAME))),
        ("torsion-of-add-sub", B::add(&add_sub, &t2)),
        ("affine-roundtrip-of-torsion", B::affine_roundtrip(&B::add(e, &t2))),
    ]
}
use crate::gen::Num;

/// every byte-producing path of the ark configuration
pub fn ark_paths(e: &ark::Element) -> Vec<(&'static str, Vec<u8>)> {
    use ark_ec::CurveGroup;
    use ark_serialize::{CanonicalSerialize, Compress};
    let mut v: Vec<(&'static str, Vec<u8>)> = Vec::new();
    v.push(("ark:vartime_compress", e.vartime_compress().0.to_vec()));
    v.push(("ark:compress_to_field.to_bytes", e.vartime_compress_to_field().to_bytes().to_vec()));
    v.push(("ark:Encoding::from(Element)", ark::Encoding::from(*e).0.to_vec()));
    v.push(("ark:Encoding::from(&Element)", ark::Encoding::from(e).0.to_vec()));
    v.push(("ark:<[u8;32]>::from(Element)", <[u8; 32]>::from(*e).to_vec()));
    v.push(("ark:<[u8;32]>::from(Encoding)", <[u8; 32]>::from(e.vartime_compress()).to_vec()));
    let mut buf = Vec::new();
    e.serialize_compressed(&mut buf).expect("serialize");
    assert_eq!(e.serialized_size(Compress::Yes), 32, "Element::serialized_size");
    v.push(("ark:Element::serialize_compressed", buf));
    let mut buf = Vec::new();
    e.serialize_with_mode(&mut buf, Compress::Yes).expect("serialize");
    v.push(("ark:Element::serialize_with_mode", buf));
    let a = e.into_affine();
    let mut buf = Vec::new();
    a.serialize_compressed(&mut buf).expect("serialize");
    assert_eq!(a.serialized_size(Compress::Yes), 32, "AffinePoint::serialized_size");
    v.push(("ark:AffinePoint::serialize_compressed", buf));
    let a2: <ark::Element as CurveGroup>::Affine = e.into();
    let mut buf = Vec::new();
    a2.serialize_compressed(&mut buf).expect("serialize");
    v.push(("ark:AffinePoint::from(&Element).serialize", buf));
    let mut buf = Vec::new();
    e.vartime_compress().serialize_compressed(&mut buf).expect("serialize");
    v.push(("ark:Encoding::serialize_compressed", buf));
    // sinks that accept only a few bytes per write call (a pipe, a chunking writer): a legal `Write`
    struct Chunky {
        out: Vec<u8>,
        chunk: usize,
    }
    impl ark_serialize::Write for Chunky {
        fn write(&mut self, buf: &[u8]) -> ark_std::io::Result<usize> {
            let n = buf.len().min(self.chunk);
            self.out.extend_from_slice(&buf[..n]);
            Ok(n)
        }
        fn flush(&mut self) -> ark_std::io::Result<()> {
            Ok(())
        }
    }
    for (name, chunk) in [("ark:Element::serialize_compressed(1-byte sink)", 1usize), ("ark:Element::serialize_compressed(7-byte sink)", 7), ("ark:Element::serialize_compressed(31-byte sink)", 31)] {
        let mut w = Chunky { out: Vec::new(), chunk };
        e.serialize_compressed(&mut w).expect("serialize");
        v.push((name, w.out));
    }
    let mut w = Chunky { out: Vec::new(), chunk: 5 };
    a.serialize_compressed(&mut w).expect("serialize");
    v.push(("ark:AffinePoint::serialize_compressed(5-byte sink)", w.out));
    let mut w = Chunky { out: Vec::new(), chunk: 16 };
    e.vartime_compress().serialize_compressed(&mut w).expect("serialize");
    v.push(("ark:Encoding::serialize_compressed(16-byte sink)", w.out));
    // two values into one sink: the second must start right after the first
    let mut buf = Vec::new();
    (*e, a).serialize_compressed(&mut buf).expect("serialize");
    v.push(("ark:(Element, AffinePoint)::serialize_compressed[..32]", buf[..32.min(buf.len())].to_vec()));
    v.push(("ark:(Element, AffinePoint)::serialize_compressed[32..]", buf[32.min(buf.len())..].to_vec()));
    let unhex = |s: String, prefix: &str| -> Vec<u8> {
        let inner = s.strip_prefix(prefix).and_then(|t| t.strip_suffix(')')).unwrap_or_else(|| panic!("unexpected Debug/Display form {s:?}"));
        hex::decode(inner).unwrap_or_else(|_| panic!("unexpected Debug/Display form {s:?}"))
    };
    v.push(("ark:Element Debug", unhex(format!("{:?}", e), "decaf377::Element(")));
    v.push(("ark:Element Display", unhex(format!("{}", e), "decaf377::Element(")));
    v.push(("ark:AffinePoint Debug", unhex(format!("{:?}", a), "decaf377::AffinePoint(")));
    v.push(("ark:AffinePoint Display", unhex(format!("{}", a), "decaf377::AffinePoint(")));
    v.push(("ark:Encoding Debug", unhex(format!("{:?}", e.vartime_compress()), "decaf377::Encoding(")));
    v
}

pub fn min_paths(e: &min::Element) -> Vec<(&'static str, Vec<u8>)> {
    let mut v: Vec<(&'static str, Vec<u8>)> = Vec::new();
    v.push(("min:vartime_compress", e.vartime_compress().0.to_vec()));
    v.push(("min:compress_to_field.to_bytes", e.vartime_compress_to_field().to_bytes().to_vec()));
    v.push(("min:compress_to_field.to_bytes_le", e.vartime_compress_to_field().to_bytes_le().to_vec()));
    v.push(("min:Encoding::from(Element)", min::Encoding::from(*e).0.to_vec()));
    v.push(("min:Encoding::from(&Element)", min::Encoding::from(e).0.to_vec()));
    v.push(("min:<[u8;32]>::from(Element)", <[u8; 32]>::from(*e).to_vec()));
    v.push(("min:<[u8;32]>::from(Encoding)", <[u8; 32]>::from(e.vartime_compress()).to_vec()));
    v
}

pub trait Paths: Backend {
    fn paths(e: &Self::E) -> Vec<(&'static str, Vec<u8>)>;
}
impl Paths for Ark {
    fn paths(e: &Self::E) -> Vec<(&'static str, Vec<u8>)> {
        let _ = arkf::fq_int;
        ark_paths(e)
    }
}
impl Paths for Min {
    fn paths(e: &Self::E) -> Vec<(&'static str, Vec<u8>)> {
        let _ = minf::fq_int;
        min_paths(e)
    }
}

fn check_group<B: Paths>(base: &Recipe, s: &Recipe, ctx: &mut Ctx) -> Result<(), Failure> {
    let c = &*CURVE;
    let mut seen_z = false;
    let mut seen_noncanon = false;
    let m = base.model();
    let ms = s.model();
    let e_base = base.lib::<B>(&m);
    let e_s = s.lib::<B>(&ms);
    let want_bytes = c.encode_bytes(&m.pt);
    let canon = c.decode_spec(&want_bytes).expect("model round trip");
    for (mname, e) in members::<B>(&e_base, &e_s, &m.pt) {
        match judge_with::<B>(&e, &m.pt, &canon) {
            Ok(j) => {
                seen_z |= !j.z_is_one;
                seen_noncanon |= !j.canonical_rep;
                ctx.class(&format!("{}:member:{}:{}{}", B::NAME, mname, if j.z_is_one { "z=1" } else { "z!=1" }, if j.canonical_rep { ",canon" } else { ",noncanon" }));
            }
            Err(why) => return ctx.report(format!("C03|{}|member-wrong:{}", B::NAME, mname), format!("member {mname}: {why}")),
        }
        let fld = B::encode_field(&e);
        if fld != c.encode_spec(&m.pt) {
            ctx.report(format!("C03|{}:compress_to_field|not-spec", B::NAME), format!("member {mname}: vartime_compress_to_field = {fld:x}, specification says {:x}", c.encode_spec(&m.pt)))?;
        }
        for (pname, bytes) in B::paths(&e) {
            ctx.class(pname);
            ctx.sub_eval();
            if bytes.len() != 32 {
                ctx.report(format!("C03|{pname}|length"), format!("{pname} produced {} bytes", bytes.len()))?;
                continue;
            }
            if bytes[31] >> 5 != 0 {
                ctx.report(format!("C03|{pname}|top-bits"), format!("{pname}: top three bits not clear in {}", hex::encode(&bytes)))?;
            }
            if bytes[..] != want_bytes[..] {
                ctx.report(
                    format!("C03|{pname}|not-spec"),
                    format!("member {mname}: {pname} = {} but the specification's canonical encoding of the element is {}", hex::encode(&bytes), hex::encode(want_bytes)),
                )?;
            }
        }
    }
    if seen_z && seen_noncanon {
        ctx.nontrivial();
    }
    Ok(())
}

fn check_pair<B: Paths>(r1: &Recipe, r2: &Recipe, ctx: &mut Ctx) -> Result<(), Failure> {
    let c = &*CURVE;
    let (m1, m2) = (r1.model(), r2.model());
    let (e1, e2) = (r1.lib::<B>(&m1), r2.lib::<B>(&m2));
    let same = c.same_element(&m1.pt, &m2.pt);
    ctx.class(&format!("{}:pair:{}", B::NAME, if same { "same" } else { "different" }));
    if !same {
        ctx.nontrivial();
    }
    let (p1, p2) = (B::paths(&e1), B::paths(&e2));
    for ((name, b1), (_, b2)) in p1.iter().zip(p2.iter()) {
        if (b1 == b2) != same {
            ctx.report(
                format!("C03|{name}|injectivity"),
                format!("{name}: encodings {} / {} are {} although the model elements are {}", hex::encode(b1), hex::encode(b2), if b1 == b2 { "equal" } else { "different" }, if same { "equal" } else { "different" }),
            )?;
        }
    }
    Ok(())
}

impl Property for C03 {
    type Case = Case;
    const ID: &'static str = "C03";
    fn rule(&self) -> String {
        "cases: groups of 9 recipes for the same model element (base, +T2, P+S-S, affine round trip, -(-P), (r-1)*(-P), 2*((r+1)/2*P), re-decode, \
         T2+(P+S-S)); every byte-producing path (24 ark, 7 min, incl. Debug/Display hex, arkworks serialisation into sinks that accept 1..31 bytes per write, and two values into one sink) must give the model's \
         encodeSpec bytes; plus independent recipe pairs for injectivity. Non-trivial: group with a member having Z != 1 and a member in the \
         non-canonical representative, or a pair of different elements; distinct by digest"
            .into()
    }
    fn assumptions(&self) -> Vec<String> {
        vec!["reference model encodeSpec (port of ristretto.sage)".into(), "coordinate hook is read-only".into()]
    }
    fn cases(&self, tier: Tier) -> u64 {
        tier.pick(6_000, 300_000)
    }
    fn strategy(&self, _tier: Tier) -> BoxedStrategy<Case> {
        prop_oneof![
            4 => (backend(5, 1), recipe::recipe_small(), recipe::recipe_small()).prop_map(|(bk, base, s)| Case::Group { bk, base, s }),
            1 => (backend(5, 1), recipe::recipe_small(), recipe::recipe_small()).prop_map(|(bk, r1, r2)| Case::Pair { bk, r1, r2 }),
        ]
        .boxed()
    }
    fn edges(&self, _tier: Tier) -> Vec<Case> {
        use Recipe::*;
        let mut v = Vec::new();
        for bk in [Bk::Ark, Bk::Min] {
            for base in [Identity, Default, Generator, Torsion(Box::new(Identity)), MulGen(5u64.into()), MulGen(Num(&R.m - 1u32)), Elligator(1u64.into()), Elligator(0u64.into())] {
                for s in [Generator, Identity, Elligator(7u64.into())] {
                    v.push(Case::Group { bk, base: base.clone(), s });
                }
            }
            for k in 0u64..16 {
                v.push(Case::Group { bk, base: MulGen(k.into()), s: Generator });
            }
            v.push(Case::Pair { bk, r1: Generator, r2: Neg(Box::new(Generator)) });
            v.push(Case::Pair { bk, r1: Generator, r2: Torsion(Box::new(Generator)) });
        }
        let _ = N::from(0u32);
        v
    }
    fn check(&self, case: &Case, ctx: &mut Ctx) -> Result<(), Failure> {
        match case {
            Case::Group { bk, base, s } => with_backend!(*bk, B => check_group::<B>(base, s, ctx)),
            Case::Pair { bk, r1, r2 } => with_backend!(*bk, B => check_pair::<B>(r1, r2, ctx)),
        }
    }
    fn shrink_candidates(&self, case: &Case) -> Vec<Case> {
        match case {
            Case::Group { bk, base, s } => {
                let mut v: Vec<Case> = base.shrinks().into_iter().map(|r| Case::Group { bk: *bk, base: r, s: s.clone() }).collect();
                v.extend(s.shrinks().into_iter().map(|r| Case::Group { bk: *bk, base: base.clone(), s: r }));
                v
            }
            Case::Pair { bk, r1, r2 } => {
                let mut v: Vec<Case> = r1.shrinks().into_iter().map(|r| Case::Pair { bk: *bk, r1: r, r2: r2.clone() }).collect();
                v.extend(r2.shrinks().into_iter().map(|r| Case::Pair { bk: *bk, r1: r1.clone(), r2: r }));
                v
            }
        }
    }
    fn required_classes(&self, _tier: Tier) -> Vec<String> {
        let mut v: Vec<String> = ark_paths(&ark::Element::GENERATOR).iter().map(|(n, _)| n.to_string()).collect();
        v.extend(min_paths(&min::Element::GENERATOR).iter().map(|(n, _)| n.to_string()));
        v.push("ark:pair:different".into());
        v
    }
}
