//! C16 — the exported BLS12-377 engine over the crate's own fields equals the reference
//! arkworks engine (DESIGN §5/C16).

use crate::engine::{Ctx, Failure, Property, Tier};
use crate::gen::{self, Num};
use crate::refmodel::{N, Q};
use ark_ec::pairing::{Pairing, PairingOutput};
use ark_ec::{AffineRepr, CurveGroup, Group};
use ark_ff::{PrimeField, Zero};
use ark_serialize::{CanonicalDeserialize, CanonicalSerialize};
use proptest::prelude::*;
use serde::{Deserialize, Serialize};

pub struct C16;

type Ours = decaf377::Bls12_377;
type Theirs = ark_bls12_377::Bls12_377;

#[derive(Clone, Debug, Serialize, Deserialize)]
pub enum Case {
    /// points a*G1, a2*G1, b*G2: serialisation, group operations, pairings, bilinearity
    Pair { a: Num, a2: Num, b: Num },
    /// serialised points exchanged between the engines, optionally corrupted:
    /// which = 0..4 (G1 compressed, G1 uncompressed, G2 compressed, G2 uncompressed)
    Exchange { k: Num, which: u8, corrupt: Option<(u8, u16, u8)> },
    /// serialisation of an arbitrary coordinate pair (x, y) placed in a G1 point without checks:
    /// the sign flag of the encoding is decided by comparing y with -y, so y is drawn around
    /// p/2 with two limbs moved in opposite directions
    SignFlag { x: Num, y: Num },
}

fn ser<T: CanonicalSerialize>(x: &T, compressed: bool) -> Vec<u8> {
    let mut v = Vec::new();
    if compressed {
        x.serialize_compressed(&mut v).expect("serialize");
    } else {
        x.serialize_uncompressed(&mut v).expect("serialize");
    }
    v
}

fn scalar<E: Pairing>(k: &N) -> E::ScalarField {
    E::ScalarField::from_le_bytes_mod_order(&k.to_bytes_le())
}

/// everything observable about one engine on (a, a2, b); internal laws are checked on the way
fn observe<E: Pairing>(who: &str, a: &N, a2: &N, b: &N) -> Result<Vec<(String, Vec<u8>)>, String> {
    let mut o: Vec<(String, Vec<u8>)> = Vec::new();
    let (g1, g2) = (E::G1Affine::generator(), E::G2Affine::generator());
    let (sa, sa2, sb) = (scalar::<E>(a), scalar::<E>(a2), scalar::<E>(b));
    let p = (g1.into_group() * sa).into_affine();
    let p2 = (g1.into_group() * sa2).into_affine();
    let q = (g2.into_group() * sb).into_affine();
    let psum = (p.into_group() + p2.into_group()).into_affine();
    let pneg = (-p.into_group()).into_affine();
    let pbig = g1.mul_bigint(sa.into_bigint()).into_affine();
    let qdbl = q.into_group().double().into_affine();
    for (name, pt) in [("G1", g1), ("aG1", p), ("a2G1", p2), ("aG1+a2G1", psum), ("-aG1", pneg), ("aG1(mul_bigint)", pbig)] {
        o.push((format!("{name}/compressed"), ser(&pt, true)));
        o.push((format!("{name}/uncompressed"), ser(&pt, false)));
    }
    if pbig != p {
        return Err(format!("{who}: mul_bigint and * disagree in G1"));
    }
    // cofactor operations of the AffineRepr trait (they read COFACTOR / COFACTOR_INV)
    for (name, pt) in [("aG1.mul_by_cofactor", p.mul_by_cofactor()), ("aG1.mul_by_cofactor_inv", p.mul_by_cofactor_inv())] {
        o.push((format!("{name}/uncompressed"), ser(&pt, false)));
    }
    for (name, pt) in [("bG2.mul_by_cofactor", q.mul_by_cofactor()), ("bG2.mul_by_cofactor_inv", q.mul_by_cofactor_inv())] {
        o.push((format!("{name}/uncompressed"), ser(&pt, false)));
    }
    // clear_cofactor may legitimately use a different multiple of the cofactor (the reference crate
    // overrides it with an endomorphism-based method), so only membership in the subgroup is required
    let (cp, cq) = (p.clear_cofactor(), q.clear_cofactor());
    if E::G1Affine::deserialize_compressed(&ser(&cp, true)[..]).is_err() || E::G2Affine::deserialize_compressed(&ser(&cq, true)[..]).is_err() {
        return Err(format!("{who}: clear_cofactor leaves the prime-order subgroup (validated deserialisation rejects its output)"));
    }
    if p.mul_by_cofactor_inv().mul_by_cofactor() != p || q.mul_by_cofactor_inv().mul_by_cofactor() != q {
        return Err(format!("{who}: mul_by_cofactor(mul_by_cofactor_inv(P)) != P for a point of the prime-order subgroup"));
    }
    for (name, pt) in [("G2", g2), ("bG2", q), ("2bG2", qdbl)] {
        o.push((format!("{name}/compressed"), ser(&pt, true)));
        o.push((format!("{name}/uncompressed"), ser(&pt, false)));
    }
    // value round trips (equality on the in-memory representation) and mixed projective + affine addition
    for (name, pt) in [("G1", g1), ("aG1", p)] {
        if E::G1Affine::deserialize_compressed(&ser(&pt, true)[..]).ok() != Some(pt) || E::G1Affine::deserialize_uncompressed(&ser(&pt, false)[..]).ok() != Some(pt) {
            return Err(format!("{who}: deserialize(serialize({name})) != {name}"));
        }
    }
    for (name, pt) in [("G2", g2), ("bG2", q)] {
        if E::G2Affine::deserialize_compressed(&ser(&pt, true)[..]).ok() != Some(pt) || E::G2Affine::deserialize_uncompressed(&ser(&pt, false)[..]).ok() != Some(pt) {
            return Err(format!("{who}: deserialize(serialize({name})) != {name}"));
        }
    }
    {
        let mixed1 = (g1.into_group() + p).into_affine();
        let mixed2 = (g2.into_group() + q).into_affine();
        let full1 = (g1.into_group() + p.into_group()).into_affine();
        let full2 = (g2.into_group() + q.into_group()).into_affine();
        o.push(("G1+aG1(mixed)/uncompressed".into(), ser(&mixed1, false)));
        o.push(("G2+bG2(mixed)/uncompressed".into(), ser(&mixed2, false)));
        o.push(("(2G2-G2)/uncompressed".into(), ser(&(g2.into_group().double() - g2.into_group()).into_affine(), false)));
        if mixed1 != full1 || mixed2 != full2 {
            return Err(format!("{who}: mixed projective + affine addition differs from projective + projective addition"));
        }
        let msm = <E::G2 as ark_ec::VariableBaseMSM>::msm(&[g2, q], &[sa, sb]).map_err(|_| format!("{who}: msm length"))?;
        if msm != g2.into_group() * sa + q.into_group() * sb {
            return Err(format!("{who}: G2 MSM differs from the sum of the products"));
        }
        o.push(("msm([G2,bG2],[a,b])/uncompressed".into(), ser(&msm.into_affine(), false)));
    }
    // multiplication by integers that are not reduced scalars (several limbs, multiples of the group
    // order, the cofactors), in projective and in affine form
    {
        let qm = Q.m.clone();
        let ints: Vec<(&str, Vec<u64>)> = vec![
            ("2^256", vec![0, 0, 0, 0, 1]),
            ("2^320+7", vec![7, 0, 0, 0, 0, 1]),
            ("q", qm.to_u64_digits()),
            ("q+1", (&qm + 1u32).to_u64_digits()),
            ("2q", (&qm * 2u32).to_u64_digits()),
            ("a*(q+1) (8 limbs)", ((a + 1u32) * (&qm + 1u32)).to_u64_digits()),
            ("all-ones(4)", vec![u64::MAX; 4]),
            ("all-ones(6)", vec![u64::MAX; 6]),
        ];
        for (name, limbs) in &ints {
            o.push((format!("[{name}]aG1 (projective)"), ser(&p.into_group().mul_bigint(limbs).into_affine(), false)));
            o.push((format!("[{name}]aG1 (affine)"), ser(&p.mul_bigint(limbs).into_affine(), false)));
            o.push((format!("[{name}]bG2 (projective)"), ser(&q.into_group().mul_bigint(limbs).into_affine(), false)));
            o.push((format!("[{name}]bG2 (affine)"), ser(&q.mul_bigint(limbs).into_affine(), false)));
        }
        // curve points outside the prime-order subgroups: an x coordinate below p as a compressed encoding,
        // parsed without validation (the square root of x^3 + b is taken, no subgroup check)
        let pm = crate::refmodel::P.m.clone();
        let x_bytes = |salt: u32, n: usize| -> Vec<u8> {
            let v = ((a + 3u32) * (b + 5u32).pow(2) * (a2 + salt + 11u32).pow(3) + salt) % &pm;
            let mut out = v.to_bytes_le();
            out.resize(n, 0);
            out
        };
        for salt in 0..6u32 {
            let b1 = x_bytes(salt, 48);
            match E::G1Affine::deserialize_compressed_unchecked(&b1[..]) {
                Err(_) => o.push((format!("G1 x #{salt}"), b"no point".to_vec())),
                Ok(r1) => {
                    o.push((format!("G1 curve point #{salt}"), ser(&r1, false)));
                    o.push((format!("G1 curve point #{salt} in subgroup?"), vec![E::G1Affine::deserialize_compressed(&ser(&r1, true)[..]).is_ok() as u8]));
                    for (name, limbs) in &ints[2..5] {
                        o.push((format!("[{name}](G1 curve point #{salt}) (projective)"), ser(&r1.into_group().mul_bigint(limbs).into_affine(), false)));
                        o.push((format!("[{name}](G1 curve point #{salt}) (affine)"), ser(&r1.mul_bigint(limbs).into_affine(), false)));
                    }
                    o.push((format!("G1 curve point #{salt}.mul_by_cofactor"), ser(&r1.mul_by_cofactor(), false)));
                }
            }
            let mut b2 = x_bytes(salt, 48);
            b2.extend(x_bytes(salt + 100, 48));
            match E::G2Affine::deserialize_compressed_unchecked(&b2[..]) {
                Err(_) => o.push((format!("G2 x #{salt}"), b"no point".to_vec())),
                Ok(r2) => {
                    o.push((format!("G2 curve point #{salt}"), ser(&r2, false)));
                    o.push((format!("G2 curve point #{salt} in subgroup?"), vec![E::G2Affine::deserialize_compressed(&ser(&r2, true)[..]).is_ok() as u8]));
                    for (name, limbs) in &ints[2..5] {
                        o.push((format!("[{name}](G2 curve point #{salt}) (projective)"), ser(&r2.into_group().mul_bigint(limbs).into_affine(), false)));
                        o.push((format!("[{name}](G2 curve point #{salt}) (affine)"), ser(&r2.mul_bigint(limbs).into_affine(), false)));
                    }
                    o.push((format!("G2 curve point #{salt}.mul_by_cofactor"), ser(&r2.mul_by_cofactor(), false)));
                }
            }
        }
        // multi-scalar multiplication with identity bases and zero scalars in every position
        let zero1 = E::G1Affine::zero();
        let zero2 = E::G2Affine::zero();
        let zs = E::ScalarField::from(0u64);
        let bases1 = [g1, p, zero1, p2, psum, zero1, pneg];
        let scal = [sa, sb, sa2, sb, zs, sa, sa2];
        let m1 = <E::G1 as ark_ec::VariableBaseMSM>::msm(&bases1, &scal).map_err(|_| format!("{who}: msm length"))?;
        let mut want1 = E::G1::zero();
        for (bb, ss) in bases1.iter().zip(scal.iter()) {
            want1 += bb.into_group() * *ss;
        }
        if m1 != want1 {
            return Err(format!("{who}: G1 MSM with identity bases differs from the sum of the products"));
        }
        o.push(("msm(G1, identity bases)".into(), ser(&m1.into_affine(), false)));
        let bases2 = [g2, zero2, q, qdbl, zero2];
        let scal2 = [sa, sb, sa2, zs, sa];
        let m2 = <E::G2 as ark_ec::VariableBaseMSM>::msm(&bases2, &scal2).map_err(|_| format!("{who}: msm length"))?;
        let mut want2 = E::G2::zero();
        for (bb, ss) in bases2.iter().zip(scal2.iter()) {
            want2 += bb.into_group() * *ss;
        }
        if m2 != want2 {
            return Err(format!("{who}: G2 MSM with identity bases differs from the sum of the products"));
        }
        o.push(("msm(G2, identity bases)".into(), ser(&m2.into_affine(), false)));
        // long inputs (above ark-ec's smallest-window threshold) with the scalars 0, 1, -1 among them
        {
            let minus_one = -E::ScalarField::from(1u64);
            let one = E::ScalarField::from(1u64);
            let mut b1 = Vec::new();
            let mut b2 = Vec::new();
            let mut sc = Vec::new();
            for i in 0..40u64 {
                b1.push(match i % 4 { 0 => g1, 1 => p, 2 => p2, _ => psum });
                b2.push(match i % 3 { 0 => g2, 1 => q, _ => qdbl });
                sc.push(match i % 7 { 0 => minus_one, 1 => one, 2 => zs, 3 => sa, 4 => sb, 5 => sa2, _ => sa * sb + E::ScalarField::from(i) });
            }
            for n in [31usize, 32, 33, 40] {
                let m1 = <E::G1 as ark_ec::VariableBaseMSM>::msm(&b1[..n], &sc[..n]).map_err(|_| format!("{who}: msm length"))?;
                let m2 = <E::G2 as ark_ec::VariableBaseMSM>::msm(&b2[..n], &sc[..n]).map_err(|_| format!("{who}: msm length"))?;
                let (mut w1, mut w2) = (E::G1::zero(), E::G2::zero());
                for i in 0..n {
                    w1 += b1[i].into_group() * sc[i];
                    w2 += b2[i].into_group() * sc[i];
                }
                if m1 != w1 || m2 != w2 {
                    return Err(format!("{who}: MSM of {n} terms (with scalars 0, 1, -1) differs from the sum of the products"));
                }
                o.push((format!("msm(G1, {n} terms)"), ser(&m1.into_affine(), false)));
                o.push((format!("msm(G2, {n} terms)"), ser(&m2.into_affine(), false)));
            }
        }
    }
    // reduction of byte strings into the engine's fields (hash-to-field reads 64 big-endian bytes per coefficient)
    {
        use ark_ff::Field;
        type BPF<E> = <<E as Pairing>::TargetField as Field>::BasePrimeField;
        let stream: Vec<u8> = {
            let v = (a + 7u32).pow(3) * (b + 11u32).pow(5) * (a2 + 13u32).pow(7) + 0x1234_5678u32;
            let mut out = v.to_bytes_le();
            let seed = out.clone();
            while out.len() < 160 {
                let k = out.len();
                out.push(seed[k % seed.len()].wrapping_mul(31).wrapping_add(k as u8));
            }
            out
        };
        for len in [0usize, 1, 31, 32, 33, 47, 48, 49, 64, 95, 96, 97, 128, 144, 160] {
            o.push((format!("Fp::from_be_bytes_mod_order({len} bytes)"), ser(&BPF::<E>::from_be_bytes_mod_order(&stream[..len]), false)));
            o.push((format!("Fp::from_le_bytes_mod_order({len} bytes)"), ser(&BPF::<E>::from_le_bytes_mod_order(&stream[..len]), false)));
            o.push((format!("Fr::from_be_bytes_mod_order({len} bytes)"), ser(&E::ScalarField::from_be_bytes_mod_order(&stream[..len]), false)));
            o.push((format!("Fr::from_le_bytes_mod_order({len} bytes)"), ser(&E::ScalarField::from_le_bytes_mod_order(&stream[..len]), false)));
        }
    }
    // zeroize leaves the same state in both engines (fields, points, pairing outputs)
    {
        use zeroize::Zeroize;
        let mut t = p.into_group();
        t.zeroize();
        o.push(("zeroize(aG1 projective)".into(), ser(&t.into_affine(), false)));
        let mut t = q.into_group();
        t.zeroize();
        o.push(("zeroize(bG2 projective)".into(), ser(&t.into_affine(), false)));
        let mut t = p.x().copied().unwrap_or_default();
        t.zeroize();
        o.push(("zeroize(x of aG1)".into(), ser(&t, false)));
        let mut t = sa;
        t.zeroize();
        o.push(("zeroize(scalar)".into(), ser(&t, false)));
    }
    let e_pq = E::pairing(p, q);
    let e_gg = E::pairing(g1, g2);
    o.push(("e(aG1,bG2)/compressed".into(), ser(&e_pq, true)));
    o.push(("e(aG1,bG2)/uncompressed".into(), ser(&e_pq, false)));
    o.push(("e(G1,G2)".into(), ser(&e_gg, true)));
    // products of pairings with the point at infinity in every position (first, middle, last; either side)
    {
        let (o1, o2) = (E::G1Affine::zero(), E::G2Affine::zero());
        let cases: Vec<(&str, Vec<E::G1Affine>, Vec<E::G2Affine>)> = vec![
            ("[O,P][Q,Q]", vec![o1, p], vec![q, q]),
            ("[P,O][Q,Q]", vec![p, o1], vec![q, q]),
            ("[P,P2][O,Q]", vec![p, p2], vec![o2, q]),
            ("[P,O,P2][Q,Q,Q']", vec![p, o1, p2], vec![q, q, qdbl]),
            ("[P,P2,G1,aG1+a2G1,-aG1][Q,O,Q',G2,Q]", vec![p, p2, g1, psum, pneg], vec![q, o2, qdbl, g2, q]),
            ("[O][O]", vec![o1], vec![o2]),
        ];
        for (name, ps, qs) in cases {
            let got = E::multi_pairing(ps.clone(), qs.clone());
            let mut want = PairingOutput::<E>::zero();
            for (a1, b1) in ps.iter().zip(qs.iter()) {
                want += E::pairing(*a1, *b1);
            }
            if got != want {
                return Err(format!("{who}: multi_pairing{name} is not the product of the pairings"));
            }
            o.push((format!("multi_pairing{name}"), ser(&got, true)));
            o.push((format!("multi_miller_loop{name}"), ser(&E::multi_miller_loop(ps, qs).0, false)));
        }
    }
    let multi = E::multi_pairing([p, p2], [q, q]);
    o.push(("multi_pairing".into(), ser(&multi, true)));
    let ml = E::multi_miller_loop([p], [q]);
    let fe = E::final_exponentiation(ml).ok_or_else(|| format!("{who}: final exponentiation failed"))?;
    o.push(("miller_loop+final_exponentiation".into(), ser(&fe, true)));
    // arithmetic of the tower fields on arbitrary (non-unitary) elements: the pairing itself reads only a
    // few Frobenius coefficients and never the norm / Legendre / square-root code of the extension fields
    {
        use ark_ff::Field;
        type BPF<E> = <<E as Pairing>::TargetField as Field>::BasePrimeField;
        fn coords_for<F: Field>(n: usize, salt: u64, a: &N, a2: &N, b: &N) -> Vec<F::BasePrimeField> {
            (0..n as u64)
                .map(|i| {
                    let v = (a + 1u32) * (b + i + 1u32).pow(3) * (a2 + salt + 3u32).pow(2) + i * 0x9e37_79b9u64 + salt;
                    F::BasePrimeField::from_le_bytes_mod_order(&v.to_bytes_le())
                })
                .collect()
        }
        let coords = |n: usize, salt: u64| -> Vec<BPF<E>> { coords_for::<E::TargetField>(n, salt, a, a2, b) };
        let rand12 = E::TargetField::from_base_prime_field_elems(&coords(12, 1)).ok_or_else(|| format!("{who}: from_base_prime_field_elems(12)"))?;
        let sparse12 = {
            let mut c = coords(12, 2);
            for k in [1usize, 2, 3, 6, 7, 8, 9] {
                c[k] = BPF::<E>::from(0u64);
            }
            E::TargetField::from_base_prime_field_elems(&c).ok_or_else(|| format!("{who}: from_base_prime_field_elems(12)"))?
        };
        for (name, x) in [("Fp12(arbitrary)", rand12), ("Fp12(sparse)", sparse12), ("miller_loop", ml.0), ("e(aG1,bG2)", e_pq.0)] {
            let mut iter = x;
            for k in 0..=13usize {
                let mut y = x;
                y.frobenius_map_in_place(k);
                o.push((format!("{name}.frobenius_map({k})"), ser(&y, false)));
                if y != iter {
                    return Err(format!("{who}: {name}: frobenius_map({k}) is not frobenius_map(1) applied {k} times"));
                }
                iter.frobenius_map_in_place(1);
            }
            if let Some(inv) = x.inverse() {
                o.push((format!("{name}.inverse"), ser(&inv, false)));
                if inv * x != E::TargetField::ONE {
                    return Err(format!("{who}: {name}: x * x^-1 != 1"));
                }
            }
            o.push((format!("{name}.square"), ser(&x.square(), false)));
            o.push((format!("{name}.pow(5)"), ser(&x.pow([5u64]), false)));
            let l = std::panic::catch_unwind(std::panic::AssertUnwindSafe(|| x.legendre())).map_err(|_| format!("{who}: {name}: legendre() panicked (norm assertion)"))?;
            o.push((format!("{name}.legendre"), vec![if l.is_zero() { 0 } else if l.is_qr() { 1 } else { 2 }]));
            // (the square root of the degree-12 field is not implemented in ark-ff 0.4: its cubic
            // sub-extension has no SQRT_PRECOMP and panics with `unimplemented!` in every engine)
            let sq = x.square();
            let lsq = std::panic::catch_unwind(std::panic::AssertUnwindSafe(|| sq.legendre())).map_err(|_| format!("{who}: {name}: legendre() of a square panicked"))?;
            if !x.is_zero() && !lsq.is_qr() {
                return Err(format!("{who}: {name}: legendre(x^2) does not say 'square'"));
            }
        }
        type F2<E> = <<E as Pairing>::G2Affine as AffineRepr>::BaseField;
        let c2 = coords_for::<F2<E>>(2, 5, a, a2, b);
        let u = F2::<E>::from_base_prime_field_elems(&c2[..]).ok_or_else(|| format!("{who}: Fp2 from_base_prime_field_elems"))?;
        let mut iter = u;
        for k in 0..=5usize {
            let mut y = u;
            y.frobenius_map_in_place(k);
            o.push((format!("Fp2.frobenius_map({k})"), ser(&y, false)));
            if y != iter {
                return Err(format!("{who}: Fp2: frobenius_map({k}) is not frobenius_map(1) applied {k} times"));
            }
            iter.frobenius_map_in_place(1);
        }
        if let Some(inv) = u.inverse() {
            o.push(("Fp2.inverse".into(), ser(&inv, false)));
        }
        let l = u.legendre();
        o.push(("Fp2.legendre".into(), vec![if l.is_zero() { 0 } else if l.is_qr() { 1 } else { 2 }]));
        match u.square().sqrt() {
            Some(r) if r.square() == u.square() => {}
            _ => return Err(format!("{who}: Fp2: sqrt(u^2) is not a square root of u^2")),
        }
    }
    // laws
    if fe != e_pq {
        return Err(format!("{who}: pairing != final_exponentiation(miller_loop)"));
    }
    if e_gg.is_zero() {
        return Err(format!("{who}: e(G1,G2) is the identity (degenerate pairing)"));
    }
    if !(e_gg * E::ScalarField::from(0u64)).is_zero() || !mul_by_order::<E>(e_gg).is_zero() {
        return Err(format!("{who}: e(G1,G2)^q != 1"));
    }
    if e_pq != e_gg * (sa * sb) {
        return Err(format!("{who}: e(aG1,bG2) != e(G1,G2)^(ab)"));
    }
    if E::pairing(psum, q) != e_pq + E::pairing(p2, q) {
        return Err(format!("{who}: e(P+P',Q) != e(P,Q) e(P',Q)"));
    }
    if multi != e_pq + E::pairing(p2, q) {
        return Err(format!("{who}: multi_pairing != product of pairings"));
    }
    if E::pairing(p, qdbl) != e_pq + e_pq {
        return Err(format!("{who}: e(P,2Q) != e(P,Q)^2"));
    }
    Ok(o)
}

fn mul_by_order<E: Pairing>(x: PairingOutput<E>) -> PairingOutput<E> {
    // q = (q-1) + 1 as scalars: x*(q-1) + x
    let qm1 = E::ScalarField::from_le_bytes_mod_order(&(&Q.m - 1u32).to_bytes_le());
    x * qm1 + x
}

fn valid_bytes<E: Pairing>(k: &N, which: u8) -> Vec<u8> {
    let s = scalar::<E>(k);
    match which % 4 {
        0 => ser(&(E::G1Affine::generator().into_group() * s).into_affine(), true),
        1 => ser(&(E::G1Affine::generator().into_group() * s).into_affine(), false),
        2 => ser(&(E::G2Affine::generator().into_group() * s).into_affine(), true),
        _ => ser(&(E::G2Affine::generator().into_group() * s).into_affine(), false),
    }
}

/// verdict of one engine on a byte string: re-serialised point, or "Err"
fn parse<E: Pairing>(bytes: &[u8], which: u8) -> Result<Vec<u8>, String> {
    if which >= 4 {
        // the unchecked modes skip the subgroup / curve checks but must still reject non-canonical coordinates
        return match which % 4 {
            0 => E::G1Affine::deserialize_compressed_unchecked(bytes).map(|p| ser(&p, false)).map_err(|_| "Err".to_string()),
            1 => E::G1Affine::deserialize_uncompressed_unchecked(bytes).map(|p| ser(&p, false)).map_err(|_| "Err".to_string()),
            2 => E::G2Affine::deserialize_compressed_unchecked(bytes).map(|p| ser(&p, false)).map_err(|_| "Err".to_string()),
            _ => E::G2Affine::deserialize_uncompressed_unchecked(bytes).map(|p| ser(&p, false)).map_err(|_| "Err".to_string()),
        };
    }
    match which % 4 {
        0 => E::G1Affine::deserialize_compressed(bytes).map(|p| ser(&p, false)).map_err(|_| "Err".to_string()),
        1 => E::G1Affine::deserialize_uncompressed(bytes).map(|p| ser(&p, false)).map_err(|_| "Err".to_string()),
        2 => E::G2Affine::deserialize_compressed(bytes).map(|p| ser(&p, false)).map_err(|_| "Err".to_string()),
        _ => E::G2Affine::deserialize_uncompressed(bytes).map(|p| ser(&p, false)).map_err(|_| "Err".to_string()),
    }
}

fn corrupt(bytes: &mut Vec<u8>, c: (u8, u16, u8)) -> &'static str {
    let n = bytes.len();
    let pos = ((c.1 as usize) * n) >> 16;
    match c.0 % 9 {
        7 | 8 => {
            // first coordinate := p + small (exactly the modulus for small = 0), every flag combination
            let small = (c.1 % 3) as u32;
            let v = (&crate::refmodel::P.m + small).to_bytes_le();
            for (i, b) in bytes[..48].iter_mut().enumerate() {
                *b = v.get(i).copied().unwrap_or(0);
            }
            if c.0 % 9 == 8 {
                // G2: also the second half of the x coordinate
                if n >= 96 {
                    for (i, b) in bytes[48..96].iter_mut().enumerate() {
                        *b = v.get(i).copied().unwrap_or(0);
                    }
                }
            }
            bytes[n - 1] = (bytes[n - 1] & 0x3f) | (c.2 & 0xc0);
            "coordinate-equals-modulus-plus-small"
        }
        0 => {
            // flag bits live in the top bits of the last byte
            bytes[n - 1] ^= 0x80;
            "flip-top-flag"
        }
        1 => {
            bytes[n - 1] ^= 0x40;
            "flip-second-flag"
        }
        2 => {
            bytes[pos] ^= 1 << (c.2 % 8);
            "bit-flip"
        }
        3 => {
            // x >= p: all-ones in the x coordinate's top bytes (flags cleared)
            let xlen = if n == 48 || n == 96 && false { 48 } else { 48 };
            for b in bytes[..xlen].iter_mut() {
                *b = 0xff;
            }
            bytes[xlen - 1] = 0x01 | (c.2 & 0xc0) | 0x3f;
            "x-not-below-p"
        }
        4 => {
            bytes.truncate(n - 1 - (c.2 as usize % 8));
            "truncated"
        }
        5 => {
            for b in bytes.iter_mut() {
                *b = 0;
            }
            bytes[n - 1] = c.2 & 0xc0;
            "zeros-with-flags"
        }
        _ => {
            bytes[pos] = c.2;
            "byte-set"
        }
    }
}

fn sign_flag_case(x: &N, y: &N, ctx: &mut Ctx) -> Result<(), Failure> {
    use crate::refmodel::P;
    type G1o = <Ours as Pairing>::G1Affine;
    type G1t = <Theirs as Pairing>::G1Affine;
    let (x, y) = (x % &P.m, y % &P.m);
    let to48 = |v: &N| {
        let mut b = v.to_bytes_le();
        b.resize(48, 0);
        b
    };
    let (xo, yo) = (decaf377::Fp::from_le_bytes_mod_order(&to48(&x)), decaf377::Fp::from_le_bytes_mod_order(&to48(&y)));
    let (xt, yt) = (ark_bls12_377::Fq::from_le_bytes_mod_order(&to48(&x)), ark_bls12_377::Fq::from_le_bytes_mod_order(&to48(&y)));
    let po = G1o::new_unchecked(xo, yo);
    let pt = G1t::new_unchecked(xt, yt);
    ctx.class("sign-flag");
    let neg = &y > &((&P.m - 1u32) >> 1);
    ctx.class(if neg { "sign-flag:y>p/2" } else { "sign-flag:y<=p/2" });
    for compressed in [true, false] {
        ctx.sub_eval();
        let (a, b) = (ser(&po, compressed), ser(&pt, compressed));
        if a != b {
            ctx.report(
                format!("C16|sign-flag:{}", if compressed { "compressed" } else { "uncompressed" }),
                format!("the unchecked point (x={x:x}, y={y:x}) serialises to {} in decaf377::Bls12_377 and to {} in the reference engine", hex::encode(&a), hex::encode(&b)),
            )?;
        }
    }
    Ok(())
}

impl Property for C16 {
    type Case = Case;
    const ID: &'static str = "C16";
    fn rule(&self) -> String {
        "differential against ark_bls12_377::Bls12_377: scalars a, a2, b (structured Fq generator) -> points aG1, a2G1, bG2, sums, negations, doublings; \
         compressed and uncompressed serialisations of 9 points, of pairing outputs, multi-pairing and miller-loop + final exponentiation must be \
         byte-identical; each engine checks bilinearity, e(aG1,bG2) = e(G1,G2)^(ab), non-degeneracy, e(G1,G2)^q = 1; serialised points (valid, and \
         corrupted: flag bits, bit flips, x >= p, truncation, zeros) are parsed by both engines, which must agree on the verdict and the point. \
         Also byte-compared: tower-field arithmetic (Frobenius powers 0..13, inverse, square, pow, Legendre) on arbitrary, sparse, Miller-loop and pairing values of Fp12 and on Fp2; multiplication by multi-limb integers, multiples of the order and the cofactors in projective and affine form on subgroup points and on curve points outside the subgroups; MSM with identity bases and zero scalars; reduction of 0..160-byte strings into both fields; zeroize. Non-trivial: a, b not in {0,1} (exchange: corrupted or k not in {0,1}); distinct by digest"
            .into()
    }
    fn assumptions(&self) -> Vec<String> {
        vec!["the reference crate ark-bls12-377 0.4 (and ark-ec's generic BLS12 engine used by both) is trusted".into()]
    }
    fn cases(&self, tier: Tier) -> u64 {
        tier.pick(6_000, 200_000)
    }
    fn strategy(&self, _tier: Tier) -> BoxedStrategy<Case> {
        prop_oneof![
            1 => (gen::fq(), gen::fq(), gen::fq()).prop_map(|(a, a2, b)| Case::Pair { a, a2, b }),
            3 => (gen::fq(), 0u8..4, proptest::option::weighted(0.7, (0u8..9, any::<u16>(), any::<u8>()))).prop_map(|(k, which, corrupt)| Case::Exchange { k, which, corrupt }),
            2 => (gen::fe(&crate::refmodel::P.m), 0u32..6, 0u32..6, prop_oneof![Just(0u64), Just(1u64), any::<u64>()], prop_oneof![Just(0u64), Just(1u64), any::<u64>()], any::<bool>()).prop_map(|(x, i, j, u, v, hi)| {
                let p = &crate::refmodel::P.m;
                let half = if hi { (p + 1u32) >> 1 } else { (p - 1u32) >> 1 };
                let y = (half + (N::from(u) << (64 * i as u64)) + p - ((N::from(v) << (64 * j as u64)) % p)) % p;
                Case::SignFlag { x, y: Num(y) }
            }),
            1 => (gen::fe(&crate::refmodel::P.m), gen::fe(&crate::refmodel::P.m)).prop_map(|(x, y)| Case::SignFlag { x, y }),
        ]
        .boxed()
    }
    fn edges(&self, _tier: Tier) -> Vec<Case> {
        let q = &Q.m;
        let vals = [N::zero(), N::from(1u32), N::from(2u32), q - 1u32, (q - 1u32) >> 1];
        let mut v = Vec::new();
        for a in &vals {
            v.push(Case::Pair { a: Num(a.clone()), a2: Num(N::from(3u32)), b: Num(N::from(5u32)) });
            v.push(Case::Pair { a: Num(N::from(7u32)), a2: Num(a.clone()), b: Num(a.clone()) });
            for which in 0..4 {
                v.push(Case::Exchange { k: Num(a.clone()), which, corrupt: None });
                for c in 0..7u8 {
                    v.push(Case::Exchange { k: Num(a.clone()), which, corrupt: Some((c, 0x8000, 0xc5)) });
                }
                for c in 7..9u8 {
                    for small in 0..3u16 {
                        for flags in [0x00u8, 0x40, 0x80, 0xc0] {
                            v.push(Case::Exchange { k: Num(a.clone()), which, corrupt: Some((c, small, flags)) });
                        }
                    }
                }
            }
        }
        v
    }
    fn check(&self, case: &Case, ctx: &mut Ctx) -> Result<(), Failure> {
        match case {
            Case::Pair { a, a2, b } => {
                let (a, a2, b) = (&a.0 % &Q.m, &a2.0 % &Q.m, &b.0 % &Q.m);
                ctx.class("pair");
                if a > N::from(1u32) && b > N::from(1u32) {
                    ctx.nontrivial();
                }
                let ours = match observe::<Ours>("decaf377::Bls12_377", &a, &a2, &b) {
                    Ok(o) => o,
                    Err(why) => return ctx.report("C16|law", why),
                };
                let theirs = observe::<Theirs>("reference", &a, &a2, &b).map_err(|w| Failure { signature: "C16|reference-law".into(), message: w })?;
                for ((name, x), (_, y)) in ours.iter().zip(theirs.iter()) {
                    ctx.sub_eval();
                    if x != y {
                        ctx.report(format!("C16|differs:{name}"), format!("{name}: decaf377::Bls12_377 gives {}, reference gives {} (a={a:x}, a2={a2:x}, b={b:x})", hex::encode(x), hex::encode(y)))?;
                    }
                }
                Ok(())
            }
            Case::SignFlag { x, y } => {
                ctx.nontrivial();
                sign_flag_case(&x.0, &y.0, ctx)
            }
            Case::Exchange { k, which, corrupt: c } => {
                let k = &k.0 % &Q.m;
                let names = ["G1/compressed", "G1/uncompressed", "G2/compressed", "G2/uncompressed"];
                let name = names[(*which % 4) as usize];
                let mut from_ours = valid_bytes::<Ours>(&k, *which);
                let mut from_theirs = valid_bytes::<Theirs>(&k, *which);
                if from_ours != from_theirs {
                    return ctx.report(format!("C16|differs:serialize:{name}"), format!("k*G serialises differently: {} vs {}", hex::encode(&from_ours), hex::encode(&from_theirs)));
                }
                let fam = match c {
                    None => "valid",
                    Some(c) => {
                        corrupt(&mut from_theirs, *c);
                        corrupt(&mut from_ours, *c)
                    }
                };
                ctx.class(&format!("exchange:{name}:{fam}"));
                if c.is_some() || k > N::from(1u32) {
                    ctx.nontrivial();
                }
                ctx.sub_eval();
                let (po, pt) = (parse::<Ours>(&from_theirs, *which), parse::<Theirs>(&from_ours, *which));
                // the same bytes through the unchecked modes
                let (uo, ut) = (parse::<Ours>(&from_theirs, *which % 4 + 4), parse::<Theirs>(&from_ours, *which % 4 + 4));
                if uo != ut {
                    ctx.report(format!("C16|exchange-unchecked:{name}"), format!("{name} bytes {} ({fam}) in unchecked mode: decaf377::Bls12_377 says {:?}, reference says {:?}", hex::encode(&from_ours), uo.clone().map(hex::encode), ut.clone().map(hex::encode)))?;
                }
                ctx.class(if pt.is_ok() { "exchange:accepted" } else { "exchange:rejected" });
                if po != pt {
                    ctx.report(format!("C16|exchange:{name}"), format!("{name} bytes {} ({fam}): decaf377::Bls12_377 says {:?}, reference says {:?}", hex::encode(&from_ours), po.clone().map(hex::encode), pt.clone().map(hex::encode)))?;
                }
                if c.is_none() && pt.is_err() {
                    return Err(Failure { signature: "C16|reference-rejects-valid".into(), message: "reference engine rejects a valid serialisation".into() });
                }
                Ok(())
            }
        }
    }
    fn required_classes(&self, _tier: Tier) -> Vec<String> {
        vec!["pair".into(), "sign-flag:y>p/2".into(), "sign-flag:y<=p/2".into(), "exchange:accepted".into(), "exchange:rejected".into(), "exchange:G1/compressed:valid".into(), "exchange:G2/uncompressed:flip-top-flag".into()]
    }
}
