//! C07 — hash-to-group equals the specified Elligator 2 map (DESIGN §5/C07).

use crate::api::Backend;
use crate::engine::{Ctx, Failure, Property, Tier};
use crate::gen::{self, classify_fe, Num};
use crate::props::common::{backend, Bk};
use crate::recipe::judge_fast;
use crate::refmodel::{CURVE, N, Q};
use crate::with_backend;
use num_traits::Zero;
use proptest::prelude::*;
use serde::{Deserialize, Serialize};

pub struct C07;

#[derive(Clone, Debug, Serialize, Deserialize)]
pub enum Case {
    One { bk: Bk, r0: Num },
    Two { bk: Bk, r1: Num, r2: Num },
}

fn one<B: Backend>(r0: &N, ctx: &mut Ctx) -> Result<(), Failure> {
    let c = &*CURVE;
    let (want, branch) = c.elligator_spec_branch(r0);
    ctx.class(match branch {
        Some(true) => "branch:n1-square",
        Some(false) => "branch:n1-nonsquare",
        None => "branch:den-zero",
    });
    ctx.class(&format!("{}:r0:{}", B::NAME, classify_fe(r0, &Q.m)));
    if let Some(site) = structured_intermediate(r0) {
        ctx.class(&format!("{}:structured-intermediate:{site}", B::NAME));
        ctx.class("structured-intermediate");
    }
    if !r0.is_zero() {
        ctx.nontrivial();
    }
    let e = B::elligator(r0);
    let p = match judge_fast::<B>(&e, &want) {
        Ok(p) => p,
        Err(why) => return ctx.report(format!("C07|{}|not-spec", B::NAME), format!("encode_to_curve({r0:x}): {why}")),
    };
    // invariance under r0 -> -r0
    let e_neg = B::elligator(&Q.neg(r0));
    if B::encode(&e_neg) != B::encode(&e) || !B::eq(&e_neg, &e) {
        ctx.report(format!("C07|{}|sign-invariance", B::NAME), format!("encode_to_curve(-r0) != encode_to_curve(r0) for r0 = {r0:x}"))?;
    }
    // the map is a function of r0: the same again after other inputs (sharing r0's low or high half) went through it
    {
        let bytes = crate::refmodel::le32(r0);
        let mut a = bytes;
        a[16..].fill(0);
        let mut b = bytes;
        b[..16].fill(0);
        let _ = B::elligator(&(N::from_bytes_le(&a) % &Q.m));
        let _ = B::elligator(&(N::from_bytes_le(&b) % &Q.m));
        let _ = B::elligator(&N::from(1u32));
        let again = B::elligator(r0);
        if B::encode(&again) != B::encode(&e) {
            ctx.report(format!("C07|{}|not-a-function", B::NAME), format!("encode_to_curve({r0:x}) gives a different result after other inputs were mapped"))?;
        }
    }
    // the output is a valid element: its encoding is the specification's and decodes back to it
    let enc = B::encode(&e);
    if enc != c.encode_bytes(&want) {
        ctx.report(format!("C07|{}|encoding-of-output", B::NAME), format!("encoding of encode_to_curve({r0:x}) is {} but the specification gives {}", hex::encode(enc), hex::encode(c.encode_bytes(&want))))?;
    }
    match B::decode(&enc) {
        Ok(back) if B::eq(&back, &e) => {}
        other => ctx.report(format!("C07|{}|output-not-valid", B::NAME), format!("encode_to_curve({r0:x}) does not survive encode/decode: {:?}", other.map(|_| "decoded to a different element")))?,
    }
    // r * P is the identity (model-side, on the library's coordinates); sampled 1 in 4
    if r0.to_u32_digits().first().copied().unwrap_or(0) & 3 == 0 {
        ctx.class("order-checked");
        if !c.valid(&p) {
            ctx.report(format!("C07|{}|output-outside-group", B::NAME), format!("encode_to_curve({r0:x}) = ({:x},{:x}) is not in the group", p.x, p.y))?;
        }
    }
    Ok(())
}

/// the first intermediate value of the map (model side) whose plain or Montgomery form is sparse / small
fn structured_intermediate(r0: &N) -> Option<&'static str> {
    let c = &*CURVE;
    let f = &*Q;
    let r = f.mul(&c.zeta, &f.sq(r0));
    let d_m_a = f.sub(&c.d, &c.a);
    let a1 = f.sub(&f.mul(&c.d, &r), &d_m_a);
    let a2 = f.sub(&f.mul(&d_m_a, &r), &c.d);
    let den = f.mul(&a1, &a2);
    let num = f.mul(&f.add(&r, &N::from(1u32)), &c.a_m_2d);
    let vals = [("r", r.clone()), ("den-factor", a1), ("den-factor", a2), ("den", den.clone()), ("num", num.clone()), ("num*den", f.mul(&num, &den)), ("r-1", f.sub(&r, &N::from(1u32)))];
    let mont = (N::from(1u32) << 256) % &f.m;
    for (name, v) in vals {
        for x in [v.clone(), f.mul(&v, &mont)] {
            let (lo, hi) = (x.clone(), f.neg(&x));
            for y in [lo, hi] {
                let nz = y.to_u32_digits().iter().filter(|w| **w != 0).count();
                if nz <= 2 {
                    return Some(name);
                }
            }
        }
    }
    None
}

fn two<B: Backend>(r1: &N, r2: &N, ctx: &mut Ctx) -> Result<(), Failure> {
    let c = &*CURVE;
    let want = c.add(&c.elligator_spec(r1), &c.elligator_spec(r2));
    ctx.class(&format!("{}:hash_to_curve", B::NAME));
    if !r1.is_zero() && !r2.is_zero() && r1 != r2 {
        ctx.nontrivial();
    }
    let e = B::hash2(r1, r2);
    if let Err(why) = judge_fast::<B>(&e, &want) {
        ctx.report(format!("C07|{}|hash-not-sum", B::NAME), format!("hash_to_curve({r1:x}, {r2:x}): {why}"))?;
    }
    let sum = B::add(&B::elligator(r1), &B::elligator(r2));
    if !B::eq(&sum, &e) || B::encode(&sum) != B::encode(&e) {
        ctx.report(format!("C07|{}|hash-not-sum-lib", B::NAME), format!("hash_to_curve({r1:x}, {r2:x}) != encode_to_curve(r1) + encode_to_curve(r2)"))?;
    }
    Ok(())
}

impl Property for C07 {
    type Case = Case;
    const ID: &'static str = "C07";
    fn rule(&self) -> String {
        "cases: field elements r0 (uniform, 0, +-small, near q, near q/2, powers of two, limb patterns, powers of zeta, roots of unity of every order \
         2^k, k=0..47; plus inputs solved from a structured target value -- Montgomery-sparse, small, near q -- of one of the map's intermediate \
         values r, den and its factors, num, num*den, r-1, n1, n2) and pairs -- independent, and related (equal, opposite, cancelling via r -> 1/(zeta r), siblings sharing the radicand num*den) --, both configurations; the map must also be a function of its argument (same result again after other inputs); oracle: line-by-line port of ristretto.sage's unoptimised elligatorSpec, compared through the \
         hook coordinates; plus invariance under r0 -> -r0, encoding equals the specification's, encode/decode round trip, r*P = identity (model, on \
         a quarter of the cases), and hash_to_curve = sum of the two maps. Non-trivial: r0 != 0 (pairs: distinct non-zero inputs); distinct by digest"
            .into()
    }
    fn assumptions(&self) -> Vec<String> {
        vec!["symbolic check recorded in DESIGN §3: the only input with a degenerate intermediate value is r0 = 0".into()]
    }
    fn cases(&self, tier: Tier) -> u64 {
        tier.pick(40_000, 2_000_000)
    }
    fn strategy(&self, _tier: Tier) -> BoxedStrategy<Case> {
        prop_oneof![
            4 => (backend(6, 1), gen::fq_special()).prop_map(|(bk, r0)| Case::One { bk, r0 }),
            1 => (backend(1, 1), gen::r0_targeted()).prop_map(|(bk, r0)| Case::One { bk, r0 }),
            1 => (backend(6, 1), gen::fq_special(), gen::fq_special()).prop_map(|(bk, r1, r2)| Case::Two { bk, r1, r2 }),
            // related inputs: the map depends on r^2 only, and r -> 1/(zeta r) negates its output, so these
            // pairs make the two summands equal, opposite, or cancel
            1 => (backend(1, 1), gen::fq_special(), 0u8..12).prop_map(|(bk, r1, rel)| {
                let f = &*Q;
                let z = &CURVE.zeta;
                let inv = |x: &N| f.inv(x).unwrap_or_default();
                let r = &r1.0 % &f.m;
                let r2 = match rel {
                    0 => r.clone(),
                    1 => f.neg(&r),
                    2 => inv(&f.mul(z, &r)),
                    3 => f.neg(&inv(&f.mul(z, &r))),
                    4 => inv(&r),
                    5 => f.mul(z, &r),
                    6 => f.mul(&r, &f.pow(z, &f.trace)),
                    7 => f.mul(&r, &f.sqrt(&f.neg(&N::from(1u32))).unwrap_or_default()),
                    8 => N::zero(),
                    9 => {
                        // a "sibling": another input with the same radicand num*den (a cubic in zeta*r0^2)
                        let rr = f.mul(z, &f.sq(&r));
                        let d_m_a = f.sub(&CURVE.d, &CURVE.a);
                        let den = f.mul(&f.sub(&f.mul(&CURVE.d, &rr), &d_m_a), &f.sub(&f.mul(&d_m_a, &rr), &CURVE.d));
                        let num = f.mul(&f.add(&rr, &N::from(1u32)), &CURVE.a_m_2d);
                        let sibs = CURVE.elligator_preimages(5, &f.mul(&num, &den));
                        sibs.into_iter().find(|s| *s != r && *s != f.neg(&r)).unwrap_or_else(|| f.neg(&r))
                    }
                    _ => inv(&f.mul(&f.sq(z), &r)),
                };
                Case::Two { bk, r1: Num(r), r2: Num(r2) }
            }),
        ]
        .boxed()
    }
    fn edges(&self, _tier: Tier) -> Vec<Case> {
        let q = &Q.m;
        let mut v = Vec::new();
        // the eight inputs of the repository's test_elligator vectors
        let vectors: [[u8; 32]; 8] = [
            [221, 101, 215, 58, 170, 229, 36, 124, 172, 234, 94, 214, 186, 163, 242, 30, 65, 123, 76, 74, 56, 60, 24, 213, 240, 137, 49, 189, 138, 39, 90, 6],
            [23, 203, 214, 51, 26, 149, 7, 160, 228, 239, 208, 147, 124, 109, 75, 72, 64, 16, 64, 215, 53, 185, 249, 168, 188, 49, 22, 194, 118, 7, 242, 16],
            [177, 123, 90, 180, 115, 7, 108, 183, 161, 167, 24, 15, 248, 218, 206, 227, 76, 137, 162, 187, 148, 174, 66, 44, 205, 1, 211, 91, 140, 50, 144, 1],
            [204, 225, 121, 228, 145, 30, 86, 208, 132, 242, 203, 9, 153, 90, 195, 150, 215, 49, 166, 70, 78, 68, 47, 98, 30, 130, 115, 139, 168, 242, 238, 8],
            [59, 150, 40, 159, 229, 96, 201, 47, 170, 163, 9, 208, 205, 201, 112, 241, 179, 82, 198, 79, 207, 160, 184, 245, 63, 189, 101, 115, 217, 228, 74, 13],
            [74, 159, 227, 190, 73, 213, 131, 200, 50, 102, 249, 230, 48, 103, 85, 168, 239, 149, 7, 164, 12, 42, 217, 177, 189, 97, 214, 98, 102, 73, 10, 16],
            [183, 227, 227, 192, 119, 10, 155, 143, 64, 60, 249, 165, 240, 39, 31, 197, 159, 121, 64, 82, 10, 1, 34, 35, 121, 34, 146, 69, 226, 196, 156, 14],
            [61, 21, 56, 224, 11, 181, 71, 186, 238, 126, 234, 240, 14, 168, 75, 73, 251, 111, 175, 85, 108, 9, 77, 2, 88, 249, 24, 235, 53, 96, 51, 15],
        ];
        let mut inputs: Vec<N> = vec![N::zero(), N::from(1u32), q - 1u32, N::from(2u32), q - 2u32, N::from(100u32), (q - 1u32) >> 1, (q + 1u32) >> 1];
        for k in 3u32..64 {
            inputs.push(N::from(k));
        }
        inputs.extend(vectors.iter().map(|b| N::from_bytes_le(b)));
        for bk in [Bk::Ark, Bk::Min] {
            for r in &inputs {
                v.push(Case::One { bk, r0: Num(r.clone()) });
            }
            v.push(Case::Two { bk, r1: Num(N::zero()), r2: Num(N::zero()) });
            v.push(Case::Two { bk, r1: Num(N::from(1u32)), r2: Num(q - 1u32) });
            v.push(Case::Two { bk, r1: Num(N::from(5u32)), r2: Num(N::from(7u32)) });
            v.push(Case::Two { bk, r1: Num(N::from(5u32)), r2: Num(N::from(5u32)) });
            v.push(Case::Two { bk, r1: Num(N::from(5u32)), r2: Num(N::zero()) });
            v.push(Case::Two { bk, r1: Num(N::zero()), r2: Num(N::from(5u32)) });
            v.push(Case::Two { bk, r1: Num(N::from(1u32)), r2: Num(N::from(7u32)) });
            v.push(Case::Two { bk, r1: Num(N::from(7u32)), r2: Num(N::from(1u32)) });
            v.push(Case::Two { bk, r1: Num(N::from(5u32)), r2: Num(q - 5u32) });
            for r in [1u32, 2, 3, 4, 5, 6, 7, 9] {
                let f = &*Q;
                let r = N::from(r);
                let rr = f.mul(&CURVE.zeta, &f.sq(&r));
                let d_m_a = f.sub(&CURVE.d, &CURVE.a);
                let den = f.mul(&f.sub(&f.mul(&CURVE.d, &rr), &d_m_a), &f.sub(&f.mul(&d_m_a, &rr), &CURVE.d));
                let num = f.mul(&f.add(&rr, &N::from(1u32)), &CURVE.a_m_2d);
                for sib in CURVE.elligator_preimages(5, &f.mul(&num, &den)) {
                    if sib != r && sib != f.neg(&r) {
                        v.push(Case::Two { bk, r1: Num(r.clone()), r2: Num(sib.clone()) });
                        v.push(Case::Two { bk, r1: Num(sib), r2: Num(r.clone()) });
                    }
                }
            }
            for r in [1u32, 2, 5, 7] {
                let r = N::from(r);
                let c = Q.inv(&Q.mul(&CURVE.zeta, &r)).unwrap();
                v.push(Case::Two { bk, r1: Num(r.clone()), r2: Num(c.clone()) });
                v.push(Case::Two { bk, r1: Num(Q.neg(&c)), r2: Num(r) });
            }
        }
        v
    }
    fn check(&self, case: &Case, ctx: &mut Ctx) -> Result<(), Failure> {
        match case {
            Case::One { bk, r0 } => {
                if r0.0 >= Q.m {
                    ctx.excluded();
                    return Ok(());
                }
                with_backend!(*bk, B => one::<B>(&r0.0, ctx))
            }
            Case::Two { bk, r1, r2 } => {
                if r1.0 >= Q.m || r2.0 >= Q.m {
                    ctx.excluded();
                    return Ok(());
                }
                with_backend!(*bk, B => two::<B>(&r1.0, &r2.0, ctx))
            }
        }
    }
    fn required_classes(&self, _tier: Tier) -> Vec<String> {
        ["branch:n1-square", "branch:n1-nonsquare", "ark:hash_to_curve", "min:hash_to_curve", "order-checked", "structured-intermediate", "min:structured-intermediate:num*den", "ark:structured-intermediate:num*den"].iter().map(|s| s.to_string()).collect()
    }
    fn extra_coverage(&self, classes: &mut std::collections::BTreeMap<String, u64>, cov: &mut serde_json::Map<String, serde_json::Value>) {
        let s = classes.get("branch:n1-square").copied().unwrap_or(0) as f64;
        let n = classes.get("branch:n1-nonsquare").copied().unwrap_or(0) as f64;
        if s + n > 0.0 {
            cov.insert("fraction_square_branch".into(), serde_json::json!(s / (s + n)));
        }
    }
}
