//! C01 — group-element encoding round-trips in both directions (DESIGN §5/C01).

use crate::api::Backend;
use crate::engine::{Ctx, Failure, Property, Tier};
use crate::props::common::{backend, bytes32_near, near_miss, Bk, Bytes32};
use crate::recipe::{self, judge, Recipe};
use crate::refmodel::{CURVE, N, R};
use crate::{ensure, with_backend};
use proptest::prelude::*;
use serde::{Deserialize, Serialize};

pub struct C01;

#[derive(Clone, Debug, Serialize, Deserialize)]
pub enum Case {
    /// element -> bytes -> element
    Elem { bk: Bk, r: Recipe },
    /// bytes -> element -> bytes
    Bytes { bk: Bk, b: Bytes32 },
    /// bijection: equal encodings iff equal elements
    Pair { bk: Bk, r1: Recipe, r2: Recipe },
}

fn check_elem<B: Backend + crate::props::c03::Paths>(r: &Recipe, ctx: &mut Ctx) -> Result<(), Failure> {
    let c = &*CURVE;
    let m = r.model();
    let e = r.lib::<B>(&m);
    let j = match judge::<B>(&e, &m.pt) {
        Ok(j) => j,
        // the recipe itself went wrong: that is C04/C05/C07's business, but it is still a
        // failure of "any element obtainable from ... sequences of group operations"
        Err(why) => return ctx.report(format!("C01|{}|recipe-result-wrong", B::NAME), format!("recipe result: {why}")),
    };
    if !j.z_is_one || !j.canonical_rep {
        ctx.nontrivial();
    }
    ctx.class(&format!("{}:elem:{}{}", B::NAME, if j.z_is_one { "z=1" } else { "z!=1" }, if j.canonical_rep { ",canon" } else { ",noncanon" }));
    let enc = B::encode(&e);
    let back = match B::decode(&enc) {
        Ok(b) => b,
        Err(err) => {
            return ctx.report(format!("C01|{}|decode-of-encode-rejected", B::NAME), format!("decode(encode(E)) = Err({err:?}) for encoding {}", hex::encode(enc)))
        }
    };
    ensure!(ctx, B::eq(&back, &e), format!("C01|{}|decode-of-encode-not-equal", B::NAME), "decode(encode(E)) != E under the library's equality (encoding {})", hex::encode(enc));
    // the decoded value must be a *valid* representative of the model's element, not
    // merely something that satisfies X1*Y2 == X2*Y1
    let want = c.decode_int(&c.encode_spec(&m.pt)).expect("model round trip");
    if let Err(why) = judge::<B>(&back, &want) {
        ctx.report(format!("C01|{}|decode-of-encode-wrong-element", B::NAME), format!("decode(encode(E)): {why}"))?;
    }
    if let Err(why) = B::other_form_roundtrip(&e) {
        ctx.report(format!("C01|{}|affine-form-roundtrip", B::NAME), why)?;
    }
    // whichever public route produced the 32 bytes (conversions, serialisers, Display), they decode back to E
    for (name, bytes) in <B as crate::props::c03::Paths>::paths(&e) {
        if bytes.len() != 32 {
            continue;
        }
        ctx.sub_eval();
        let mut arr = [0u8; 32];
        arr.copy_from_slice(&bytes);
        match B::decode(&arr) {
            Ok(b2) if B::eq(&b2, &e) => {}
            Ok(_) => ctx.report(format!("C01|{name}|decode-of-encode-not-equal"), format!("the bytes {} produced by {name} decode to a different element", hex::encode(arr)))?,
            Err(err) => ctx.report(format!("C01|{name}|decode-of-encode-rejected"), format!("the bytes {} produced by {name} are rejected ({err:?})", hex::encode(arr)))?,
        }
    }
    // re-encoding reproduces the bytes
    let enc2 = B::encode(&back);
    ensure!(ctx, enc2 == enc, format!("C01|{}|reencode-differs", B::NAME), "encode(decode(encode(E))) = {} but encode(E) = {}", hex::encode(enc2), hex::encode(enc));
    Ok(())
}

/// every decoding entry point of the configuration that accepts `arr`, with the re-encoding of what it returned
fn reencodings(is_ark: bool, arr: &[u8; 32]) -> Vec<(&'static str, [u8; 32])> {
    if is_ark {
        use ark_serialize::CanonicalDeserialize;
        let mut v: Vec<(&'static str, [u8; 32])> = crate::props::c02::ark_entry_points(arr).into_iter().filter_map(|(n, r)| r.ok().map(|e| (n, e.vartime_compress().0))).collect();
        // readers that deliver the 32 bytes in pieces (a chain of slices, a small buffer)
        for (name, chunk) in [("ark:Element::deserialize_compressed(1-byte reads)", 1usize), ("ark:Element::deserialize_compressed(31-byte reads)", 31)] {
            if let Ok(e) = crate::api::ark::Element::deserialize_compressed(crate::props::c02::Frag { data: &arr[..], chunk }) {
                v.push((name, e.vartime_compress().0));
            }
        }
        if let Ok(e) = crate::api::ark::Element::deserialize_compressed(std::io::Read::chain(&arr[..1], &arr[1..])) {
            v.push(("ark:Element::deserialize_compressed(chained slices)", e.vartime_compress().0));
        }
        v
    } else {
        crate::props::c02::min_entry_points(arr).into_iter().filter_map(|(n, r)| r.ok().map(|e| (n, e.vartime_compress().0))).collect()
    }
}

fn check_bytes<B: Backend>(b: &Bytes32, ctx: &mut Ctx) -> Result<(), Failure> {
    let c = &*CURVE;
    let arr = b.arr();
    ctx.class(&format!("{}:bytes:{}", B::NAME, b.family));
    // whichever entry point decodes the string (TryFrom, stream deserialisers, ...), re-encoding must reproduce it
    for (name, enc) in reencodings(B::IS_ARK, &arr) {
        ctx.sub_eval();
        ensure!(ctx, enc == arr, format!("C01|{}:{name}|encode-of-decode-differs", B::NAME), "{name} accepted {} but re-encoding gives {}", hex::encode(arr), hex::encode(enc));
    }
    match B::decode(&arr) {
        Err(_) => {
            ctx.class(&format!("{}:bytes:rejected", B::NAME));
            Ok(())
        }
        Ok(e) => {
            ctx.nontrivial();
            ctx.class(&format!("{}:bytes:accepted", B::NAME));
            let enc = B::encode(&e);
            ensure!(ctx, enc == arr, format!("C01|{}|encode-of-decode-differs", B::NAME), "decode accepted {} but re-encoding gives {}", hex::encode(arr), hex::encode(enc));
            match c.decode_spec(&arr) {
                Err(_) => ctx.report(format!("C01|{}|accepted-outside-spec", B::NAME), format!("decode accepted {} which the specification rejects", hex::encode(arr)))?,
                Ok(want) => {
                    if let Err(why) = judge::<B>(&e, &want) {
                        ctx.report(format!("C01|{}|decoded-wrong-element", B::NAME), format!("decode({}): {why}", hex::encode(arr)))?;
                    }
                }
            }
            Ok(())
        }
    }
}

fn check_pair<B: Backend>(r1: &Recipe, r2: &Recipe, ctx: &mut Ctx) -> Result<(), Failure> {
    let c = &*CURVE;
    let (m1, m2) = (r1.model(), r2.model());
    let (e1, e2) = (r1.lib::<B>(&m1), r2.lib::<B>(&m2));
    let same = c.same_element(&m1.pt, &m2.pt);
    let (b1, b2) = (B::encode(&e1), B::encode(&e2));
    ctx.class(&format!("{}:pair:{}", B::NAME, if same { "same" } else { "different" }));
    if !c.is_identity_element(&m1.pt) && !c.is_identity_element(&m2.pt) {
        ctx.nontrivial();
    }
    ensure!(
        ctx,
        (b1 == b2) == same,
        format!("C01|{}|bijection", B::NAME),
        "encodings {} / {} are {} although the model elements are {}",
        hex::encode(b1),
        hex::encode(b2),
        if b1 == b2 { "equal" } else { "different" },
        if same { "equal" } else { "different" }
    );
    Ok(())
}

fn equal_pair() -> BoxedStrategy<(Recipe, Recipe)> {
    // the same element reached in two ways
    (recipe::recipe_small(), recipe::recipe_small(), 0u8..5)
        .prop_map(|(p, s, w)| {
            let b = |r: &Recipe| Box::new(r.clone());
            let other = match w {
                0 => Recipe::Torsion(b(&p)),
                1 => Recipe::AddSub(b(&p), b(&s)),
                2 => Recipe::Neg(Box::new(Recipe::MinusOneTimes(b(&p)))),
                3 => Recipe::ReDecode(b(&p)),
                _ => Recipe::Neg(Box::new(Recipe::Neg(b(&p)))),
            };
            (p, other)
        })
        .boxed()
}

impl Property for C01 {
    type Case = Case;
    const ID: &'static str = "C01";
    fn rule(&self) -> String {
        "cases: (i) element recipes (trees of public-API operations incl. torsion shift, (r-1)*P, affine round trip, P+S-S; \
         interpreted on ark, min and the big-integer model; arithmetic routed through every catalogued operator / iterator form) (ii) 32-byte strings, ~half near-misses of valid encodings, strings that tie with q in their top limbs and strings solved from structured intermediate values of decoding, decoded through every entry point incl. readers that deliver the bytes in pieces; (iii) recipe \
         pairs (half constructed equal). Oracle: model decodeSpec/encodeSpec + affine group law. Non-trivial: (i) result has Z != 1 \
         or is the non-canonical representative, (ii) string that decodes, (iii) both elements non-identity; distinct by digest of the case"
            .into()
    }
    fn assumptions(&self) -> Vec<String> {
        vec![
            "reference model (refmodel/mod.rs): port of ristretto.sage encodeSpec/decodeSpec, cross-checked against refmodel/spec.py".into(),
            "hook Element::verif_xyzt() returns the internal coordinates unchanged".into(),
            "either coset representative is accepted from the decoder (the property speaks about elements)".into(),
        ]
    }
    fn cases(&self, tier: Tier) -> u64 {
        tier.pick(48_000, 2_400_000)
    }
    fn strategy(&self, _tier: Tier) -> BoxedStrategy<Case> {
        prop_oneof![
            4 => (backend(5, 1), recipe::recipe()).prop_map(|(bk, r)| Case::Elem { bk, r }),
            5 => (backend(5, 1), bytes32_near()).prop_map(|(bk, b)| Case::Bytes { bk, b }),
            1 => (backend(5, 1), recipe::recipe_small(), recipe::recipe_small()).prop_map(|(bk, r1, r2)| Case::Pair { bk, r1, r2 }),
            1 => (backend(5, 1), equal_pair()).prop_map(|(bk, (r1, r2))| Case::Pair { bk, r1, r2 }),
        ]
        .boxed()
    }
    fn edges(&self, _tier: Tier) -> Vec<Case> {
        use Recipe::*;
        let mut v = Vec::new();
        let g = || Box::new(Generator);
        let mut recipes = vec![
            Identity,
            Default,
            Torsion(Box::new(Identity)),
            Sub(g(), g()),
            Generator,
            MinusOneTimes(g()),
            Torsion(g()),
            Neg(g()),
            AffineRoundTrip(Box::new(Double(g()))),
            MulLimbs(R.m.to_u64_digits(), g()),
        ];
        for k in 0u64..16 {
            recipes.push(MulGen(k.into()));
        }
        for bk in [Bk::Ark, Bk::Min] {
            for r in &recipes {
                v.push(Case::Elem { bk, r: r.clone() });
            }
            for s in [0u32, 8] {
                let s = N::from(s);
                for w in 0..8u8 {
                    for arg in [0u16, 0x4000, 0x8000, 0xffff] {
                        v.push(Case::Bytes { bk, b: near_miss(&s, w, arg) });
                    }
                }
            }
            v.push(Case::Pair { bk, r1: Generator, r2: Torsion(g()) });
            v.push(Case::Pair { bk, r1: Generator, r2: Neg(g()) });
            v.push(Case::Pair { bk, r1: Identity, r2: Torsion(Box::new(Identity)) });
        }
        v
    }
    fn check(&self, case: &Case, ctx: &mut Ctx) -> Result<(), Failure> {
        match case {
            Case::Elem { bk, r } => with_backend!(*bk, B => check_elem::<B>(r, ctx)),
            Case::Bytes { bk, b } => with_backend!(*bk, B => check_bytes::<B>(b, ctx)),
            Case::Pair { bk, r1, r2 } => with_backend!(*bk, B => check_pair::<B>(r1, r2, ctx)),
        }
    }
    fn shrink_candidates(&self, case: &Case) -> Vec<Case> {
        match case {
            Case::Elem { bk, r } => r.shrinks().into_iter().map(|r| Case::Elem { bk: *bk, r }).collect(),
            Case::Bytes { .. } => vec![],
            Case::Pair { bk, r1, r2 } => {
                let mut v: Vec<Case> = r1.shrinks().into_iter().map(|r| Case::Pair { bk: *bk, r1: r, r2: r2.clone() }).collect();
                v.extend(r2.shrinks().into_iter().map(|r| Case::Pair { bk: *bk, r1: r1.clone(), r2: r }));
                v
            }
        }
    }
    fn required_classes(&self, _tier: Tier) -> Vec<String> {
        ["ark:bytes:accepted", "min:bytes:accepted", "ark:bytes:rejected", "ark:elem:z!=1,noncanon", "min:elem:z!=1,noncanon", "ark:pair:same", "ark:pair:different"]
            .iter()
            .map(|s| s.to_string())
            .collect()
    }
}
