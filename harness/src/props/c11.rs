//! C11 — field-element encodings and conversions are canonical and consistent
//! (DESIGN §5/C11).

use crate::engine::{Ctx, Failure, Property, Tier};
use crate::gen::{self, HexBytes, Num};
use crate::props::c10::FId;
use crate::props::common::Bk;
use crate::refmodel::{Fld, N};
use num_traits::{One, Zero};
use proptest::prelude::*;
use serde::{Deserialize, Serialize};
use std::hash::{Hash, Hasher};

pub struct C11;

#[derive(Clone, Debug, Serialize, Deserialize)]
pub enum Item {
    /// reduction of a byte string of any length, either endianness
    Reduce { bytes: HexBytes, be: bool },
    /// an integer below 2^(8*nbytes) offered to every checked parser
    Checked { v: Num, family: String },
    /// two field elements: bytes, ordering, hashing, equality, decimal strings, big integers, flags
    Elems { a: Num, b: Num, flag_sel: u8 },
    /// small-integer conversions
    Ints { v: Num },
    /// arbitrary strings given to FromStr (only "no panic", canonical numerals compared)
    Str { s: String },
    /// big integers up to 600 bits given to From<BigUint>
    Big { n: Num },
}

#[derive(Clone, Debug, Serialize, Deserialize)]
pub struct Case {
    pub bk: Bk,
    pub f: FId,
    pub item: Item,
}

#[derive(Default)]
struct Recorder(Vec<u8>);
impl Hasher for Recorder {
    fn finish(&self) -> u64 {
        0
    }
    fn write(&mut self, b: &[u8]) {
        self.0.extend_from_slice(b);
    }
}
fn hash_stream<T: Hash>(x: &T) -> (Vec<u8>, u64) {
    let mut r = Recorder::default();
    x.hash(&mut r);
    let mut d = std::collections::hash_map::DefaultHasher::new();
    x.hash(&mut d);
    (r.0, d.finish())
}

fn fail(ctx: &mut Ctx, tag: &str, what: &str, msg: String) -> Result<(), Failure> {
    ctx.report(format!("C11|{tag}:{what}"), format!("{tag} {what}: {msg}"))
}

/// checks available in both configurations (inherent API)
macro_rules! inherent_checks {
    ($T:ty, $NB:expr, $tag:expr, $f:expr, $item:expr, $ctx:expr) => {{
        let f: &Fld = $f;
        let tag: &str = $tag;
        let ctx: &mut Ctx = $ctx;
        let canon = |v: &N| -> [u8; $NB] {
            let mut b = [0u8; $NB];
            b.copy_from_slice(&f.to_le(v));
            b
        };
        let mk = |v: &N| -> $T { <$T>::from_bytes_checked(&canon(v)).expect("canonical bytes are accepted") };
        match $item {
            Item::Reduce { bytes, be } => {
                ctx.class(&format!("{tag}:reduce:len{}", match bytes.0.len() { 0 => "0".to_string(), l if l < $NB => "<N".to_string(), l if l == $NB => "=N".to_string(), l if l <= 2 * $NB => "<=2N".to_string(), _ => ">2N".to_string() }));
                if !*be {
                    ctx.sub_eval();
                    let got = <$T>::from_le_bytes_mod_order(&bytes.0);
                    let want = N::from_bytes_le(&bytes.0) % &f.m;
                    if got.to_bytes_le()[..] != canon(&want)[..] {
                        fail(ctx, tag, "from_le_bytes_mod_order", format!("input {} ({} bytes): got {}, integer mod m is {want:x}", hex::encode(&bytes.0), bytes.0.len(), hex::encode(got.to_bytes_le())))?;
                    }
                }
            }
            Item::Checked { v, family } => {
                let mut b = v.0.to_bytes_le();
                if b.len() > $NB {
                    ctx.excluded();
                    return Ok(());
                }
                b.resize($NB, 0);
                let mut arr = [0u8; $NB];
                arr.copy_from_slice(&b);
                let in_range = v.0 < f.m;
                ctx.class(&format!("{tag}:checked:{}", if in_range { "canonical" } else { "non-canonical" }));
                ctx.class(&format!("{tag}:checked-family:{family}"));
                ctx.sub_eval();
                match <$T>::from_bytes_checked(&arr) {
                    Ok(x) => {
                        if !in_range {
                            fail(ctx, tag, "from_bytes_checked", format!("accepts the non-canonical value {:x}", v.0))?;
                        } else if x.to_bytes_le() != arr || x.to_bytes() != arr {
                            fail(ctx, tag, "from_bytes_checked/to_bytes", format!("round trip of {:x} gives {}", v.0, hex::encode(x.to_bytes_le())))?;
                        }
                    }
                    Err(_) => {
                        if in_range {
                            fail(ctx, tag, "from_bytes_checked", format!("rejects the canonical value {:x}", v.0))?;
                        }
                    }
                }
            }
            Item::Elems { a, b, .. } => {
                let (ai, bi) = (&a.0 % &f.m, &b.0 % &f.m);
                let (xa, xb) = (mk(&ai), mk(&bi));
                ctx.sub_eval();
                if xa.to_bytes_le() != canon(&ai) || xa.to_bytes() != canon(&ai) {
                    fail(ctx, tag, "to_bytes", format!("{ai:x} serialises to {}", hex::encode(xa.to_bytes_le())))?;
                }
                if (xa == xb) != (ai == bi) || (xa != xb) == (ai == bi) {
                    fail(ctx, tag, "PartialEq", format!("{ai:x} == {bi:x} is {}", xa == xb))?;
                }
                if xa.cmp(&xb) != ai.cmp(&bi) || xa.partial_cmp(&xb) != Some(ai.cmp(&bi)) || (xa < xb) != (ai < bi) {
                    fail(ctx, tag, "Ord", format!("cmp({ai:x}, {bi:x}) = {:?}, integers compare {:?}", xa.cmp(&xb), ai.cmp(&bi)))?;
                }
                let (ha, hb) = (hash_stream(&xa), hash_stream(&xb));
                if (ai == bi) != (ha.0 == hb.0) {
                    fail(ctx, tag, "Hash", format!("hash streams of {ai:x} and {bi:x} are {}", if ha.0 == hb.0 { "equal" } else { "different" }))?;
                }
                if ai == bi && ha.1 != hb.1 {
                    fail(ctx, tag, "Hash", format!("equal values hash differently ({ai:x})"))?;
                }
                // a second route to the same value must give an identical element
                let via_reduce = <$T>::from_le_bytes_mod_order(&(&ai + &f.m).to_bytes_le());
                if via_reduce != xa || via_reduce.to_bytes_le() != xa.to_bytes_le() || hash_stream(&via_reduce).0 != ha.0 {
                    fail(ctx, tag, "consistency", format!("{ai:x} reached by reduction of x + m differs from the checked parse"))?;
                }
                if <$T>::default() != <$T>::ZERO {
                    fail(ctx, tag, "Default", "default() is not zero".to_string())?;
                }
                let _ = format!("{:?}", xa);
            }
            Item::Ints { v } => {
                let bits = v.0.to_u64_digits();
                let lo = bits.first().copied().unwrap_or(0);
                let hi = bits.get(1).copied().unwrap_or(0);
                let v128 = ((hi as u128) << 64) | lo as u128;
                ctx.sub_eval();
                let checks: [(&str, $T, N); 6] = [
                    ("From<u128>", <$T>::from(v128), N::from(v128)),
                    ("From<u64>", <$T>::from(lo), N::from(lo)),
                    ("From<u32>", <$T>::from(lo as u32), N::from(lo as u32)),
                    ("From<u16>", <$T>::from(lo as u16), N::from(lo as u16)),
                    ("From<u8>", <$T>::from(lo as u8), N::from(lo as u8)),
                    ("From<bool>", <$T>::from(lo & 1 == 1), N::from(lo & 1)),
                ];
                for (name, got, want) in checks {
                    ctx.class(&format!("{tag}:{name}"));
                    if got.to_bytes_le()[..] != canon(&(want.clone() % &f.m))[..] {
                        fail(ctx, tag, name, format!("{want:x} converts to {}", hex::encode(got.to_bytes_le())))?;
                    }
                }
            }
            _ => {}
        }
        Ok::<(), Failure>(())
    }};
}

/// checks that exist only with the arkworks traits
macro_rules! ark_checks {
    ($T:ty, $NB:expr, $NL:expr, $tag:expr, $f:expr, $item:expr, $ctx:expr) => {{
        use ark_ec::models::short_weierstrass::SWFlags;
        use ark_ec::models::twisted_edwards::TEFlags;
        use ark_ff::{BigInt, BigInteger, PrimeField};
        use ark_serialize::{CanonicalDeserialize, CanonicalDeserializeWithFlags, CanonicalSerialize, CanonicalSerializeWithFlags, Compress, EmptyFlags, Flags, Validate};
        use std::str::FromStr;
        let f: &Fld = $f;
        let tag: &str = $tag;
        let ctx: &mut Ctx = $ctx;
        let canon = |v: &N| -> Vec<u8> { f.to_le(v) };
        let mk = |v: &N| -> $T {
            let mut b = [0u8; $NB];
            b.copy_from_slice(&f.to_le(v));
            <$T>::from_bytes_checked(&b).expect("canonical")
        };
        let to_bigint = |v: &N| -> BigInt<$NL> {
            let mut l = v.to_u64_digits();
            l.resize($NL, 0);
            let mut a = [0u64; $NL];
            a.copy_from_slice(&l);
            BigInt(a)
        };
        match $item {
            Item::Reduce { bytes, be } => {
                ctx.sub_eval();
                if *be {
                    let got = <$T as PrimeField>::from_be_bytes_mod_order(&bytes.0);
                    let want = N::from_bytes_be(&bytes.0) % &f.m;
                    if got.to_bytes_le()[..] != canon(&want)[..] {
                        fail(ctx, tag, "from_be_bytes_mod_order", format!("input {} ({} bytes): got {}, integer mod m is {want:x}", hex::encode(&bytes.0), bytes.0.len(), hex::encode(got.to_bytes_le())))?;
                    }
                } else {
                    let got = <$T as PrimeField>::from_le_bytes_mod_order(&bytes.0);
                    let want = N::from_bytes_le(&bytes.0) % &f.m;
                    if got.to_bytes_le()[..] != canon(&want)[..] {
                        fail(ctx, tag, "PrimeField::from_le_bytes_mod_order", format!("input {}: integer mod m is {want:x}", hex::encode(&bytes.0)))?;
                    }
                }
            }
            Item::Checked { v, .. } => {
                if v.0.bits() as usize > 8 * $NB {
                    return Ok(());
                }
                let in_range = v.0 < f.m;
                let mut bytes = v.0.to_bytes_le();
                bytes.resize($NB, 0);
                ctx.sub_eval();
                // from_bigint
                if 64 * $NL >= v.0.bits() as usize {
                    match <$T as PrimeField>::from_bigint(to_bigint(&v.0)) {
                        Some(x) => {
                            if !in_range || x.to_bytes_le()[..] != bytes[..] {
                                fail(ctx, tag, "from_bigint", format!("{:x} -> Some({})", v.0, hex::encode(x.to_bytes_le())))?;
                            }
                        }
                        None => {
                            if in_range {
                                fail(ctx, tag, "from_bigint", format!("rejects {:x} < m", v.0))?;
                            }
                        }
                    }
                }
                // From<BigInt<N>> on any N-limb integer: whatever it returns denotes the integer modulo m (the
                // upstream trait panics above the modulus; the crate reduces)
                if 64 * $NL >= v.0.bits() as usize {
                    let bi = to_bigint(&v.0);
                    if let Ok(x) = std::panic::catch_unwind(move || <$T>::from(bi)) {
                        let want = &v.0 % &f.m;
                        if N::from_bytes_le(&x.to_bytes_le()) != want {
                            fail(ctx, tag, "From<BigInt>", format!("{:x} -> {} but the integer modulo m is {want:x}", v.0, hex::encode(x.to_bytes_le())))?;
                        }
                    }
                }
                // stream deserialisers accept exactly the canonical strings
                let des: [(&str, Result<$T, ark_serialize::SerializationError>); 4] = [
                    ("deserialize_compressed", <$T>::deserialize_compressed(&bytes[..])),
                    ("deserialize_uncompressed", <$T>::deserialize_uncompressed(&bytes[..])),
                    ("deserialize_compressed_unchecked", <$T>::deserialize_compressed_unchecked(&bytes[..])),
                    ("deserialize_with_mode(No,No)", <$T>::deserialize_with_mode(&bytes[..], Compress::No, Validate::No)),
                ];
                for (name, r) in des {
                    ctx.class(&format!("{tag}:{name}"));
                    match r {
                        Ok(x) => {
                            if !in_range || x.to_bytes_le()[..] != bytes[..] {
                                fail(ctx, tag, name, format!("accepts {} (integer {:x}, in range: {in_range}) as {}", hex::encode(&bytes), v.0, hex::encode(x.to_bytes_le())))?;
                            }
                        }
                        Err(_) => {
                            if in_range {
                                fail(ctx, tag, name, format!("rejects the canonical string {}", hex::encode(&bytes)))?;
                            }
                        }
                    }
                }
                // a short stream is an error, never a panic
                if <$T>::deserialize_compressed(&bytes[..$NB - 1]).is_ok() {
                    fail(ctx, tag, "deserialize_compressed", "accepts a stream that is one byte short".to_string())?;
                }
                // flags: EmptyFlags must reject any set spare bit; with flags the value part must be canonical
                match <$T>::deserialize_with_flags::<_, EmptyFlags>(&bytes[..]) {
                    Ok((x, _)) => {
                        if !in_range || x.to_bytes_le()[..] != bytes[..] {
                            fail(ctx, tag, "deserialize_with_flags<EmptyFlags>", format!("accepts {}", hex::encode(&bytes)))?;
                        }
                    }
                    Err(_) => {
                        if in_range {
                            fail(ctx, tag, "deserialize_with_flags<EmptyFlags>", format!("rejects canonical {}", hex::encode(&bytes)))?;
                        }
                    }
                }
            }
            Item::Elems { a, b, flag_sel } => {
                let (ai, bi) = (&a.0 % &f.m, &b.0 % &f.m);
                let xa = mk(&ai);
                let _ = &bi;
                ctx.sub_eval();
                // big-integer views
                if <$T as PrimeField>::into_bigint(xa).to_bytes_le()[..] != canon(&ai)[..] {
                    fail(ctx, tag, "into_bigint", format!("{ai:x}"))?;
                }
                let bu: num_bigint::BigUint = xa.into();
                if bu != ai {
                    fail(ctx, tag, "Into<BigUint>", format!("{ai:x} -> {bu:x}"))?;
                }
                let bi2: BigInt<$NL> = xa.into();
                if bi2.to_bytes_le()[..] != canon(&ai)[..] {
                    fail(ctx, tag, "Into<BigInt>", format!("{ai:x}"))?;
                }
                if <$T>::from(to_bigint(&ai)) != xa {
                    fail(ctx, tag, "From<BigInt>", format!("{ai:x}"))?;
                }
                // serialisation = canonical bytes
                for (name, compress) in [("serialize_compressed", Compress::Yes), ("serialize_uncompressed", Compress::No)] {
                    let mut buf = Vec::new();
                    xa.serialize_with_mode(&mut buf, compress).map_err(|e| Failure { signature: format!("C11|{tag}:{name}"), message: e.to_string() })?;
                    if buf[..] != canon(&ai)[..] || xa.serialized_size(compress) != $NB {
                        fail(ctx, tag, name, format!("{ai:x} serialises to {} (size {})", hex::encode(&buf), xa.serialized_size(compress)))?;
                    }
                }
                // decimal strings
                let shown = format!("{}", xa);
                let dec = ai.to_str_radix(10);
                if ai.is_zero() {
                    if !(shown.is_empty() || shown == "0") {
                        fail(ctx, tag, "Display", format!("zero displays as {shown:?}"))?;
                    }
                } else if shown != dec {
                    fail(ctx, tag, "Display", format!("{ai:x} displays as {shown:?}, decimal numeral is {dec}"))?;
                }
                match <$T>::from_str(&dec) {
                    Ok(x) if x == xa && x.to_bytes_le() == xa.to_bytes_le() => {}
                    other => fail(ctx, tag, "FromStr", format!("canonical numeral {dec} parses to {:?}", other.map(|x| hex::encode(x.to_bytes_le()))))?,
                }
                if !ai.is_zero() {
                    match <$T>::from_str(&shown) {
                        Ok(x) if x == xa => {}
                        _ => fail(ctx, tag, "FromStr(Display)", format!("{shown:?} does not parse back to {ai:x}"))?,
                    }
                }
                // flags round trip: value and flag preserved; only the flag bits added
                macro_rules! flag_rt {
                    ($F:ty, $flag:expr, $fname:expr) => {{
                        let flag: $F = $flag;
                        ctx.class(&format!("{tag}:flags:{}", $fname));
                        let mut buf = Vec::new();
                        xa.serialize_with_flags(&mut buf, flag).map_err(|e| Failure { signature: format!("C11|{tag}:serialize_with_flags<{}>", $fname), message: e.to_string() })?;
                        let want_len = ($f.bits as usize + <$F as Flags>::BIT_SIZE + 7) / 8;
                        if buf.len() != want_len || xa.serialized_size_with_flags::<$F>() != want_len {
                            fail(ctx, tag, concat!("serialize_with_flags-size"), format!("{} bytes for flags {}", buf.len(), $fname))?;
                        }
                        let mut value_part = buf.clone();
                        let last = value_part.len() - 1;
                        value_part[last] &= !flag.u8_bitmask();
                        value_part.resize($NB, 0);
                        if value_part[..] != canon(&ai)[..] {
                            fail(ctx, tag, "serialize_with_flags", format!("value bytes {} are not the canonical form of {ai:x} plus the flag mask {:02x} ({})", hex::encode(&buf), flag.u8_bitmask(), $fname))?;
                        }
                        match <$T>::deserialize_with_flags::<_, $F>(&buf[..]) {
                            Ok((x, fl)) => {
                                if x != xa || fl.u8_bitmask() != flag.u8_bitmask() {
                                    fail(ctx, tag, "deserialize_with_flags", format!("round trip of {ai:x} with {} gives {} / mask {:02x}", $fname, hex::encode(x.to_bytes_le()), fl.u8_bitmask()))?;
                                }
                            }
                            Err(e) => fail(ctx, tag, "deserialize_with_flags", format!("rejects its own output for {ai:x} with {}: {e}", $fname))?,
                        }
                    }};
                }
                match flag_sel % 6 {
                    0 => flag_rt!(EmptyFlags, EmptyFlags, "EmptyFlags"),
                    1 => flag_rt!(TEFlags, TEFlags::XIsPositive, "TEFlags::XIsPositive"),
                    2 => flag_rt!(TEFlags, TEFlags::XIsNegative, "TEFlags::XIsNegative"),
                    3 => flag_rt!(SWFlags, SWFlags::YIsPositive, "SWFlags::YIsPositive"),
                    4 => flag_rt!(SWFlags, SWFlags::YIsNegative, "SWFlags::YIsNegative"),
                    _ => flag_rt!(SWFlags, SWFlags::PointAtInfinity, "SWFlags::PointAtInfinity"),
                }
                // a spare bit of the last byte that the flag type does not own makes the string non-canonical
                // (its integer is >= 2^bits): it must be rejected whatever flags accompany it
                {
                    let spare = $NB * 8 - $f.bits as usize;
                    for (fname, owned, mask) in [("TEFlags", 1usize, TEFlags::XIsNegative.u8_bitmask()), ("SWFlags", 2usize, SWFlags::YIsNegative.u8_bitmask()), ("SWFlags(none)", 2usize, 0u8)] {
                        for junk in 0..spare.saturating_sub(owned) {
                            let mut buf = canon(&ai);
                            let last = buf.len() - 1;
                            buf[last] |= mask;
                            buf[last] |= 1u8 << (8 - spare + junk);
                            ctx.class(&format!("{tag}:flags:junk-spare-bit"));
                            let accepted = if owned == 1 { <$T>::deserialize_with_flags::<_, TEFlags>(&buf[..]).is_ok() } else { <$T>::deserialize_with_flags::<_, SWFlags>(&buf[..]).is_ok() };
                            if accepted {
                                fail(ctx, tag, "deserialize_with_flags", format!("accepts {} ({fname}): a spare bit outside the flag type's bits is set, the value is not below 2^{}", hex::encode(&buf), $f.bits))?;
                            }
                        }
                    }
                }
                // the invalid SWFlags bit pattern (both bits set) is an error, not a panic, not a value
                if $NB * 8 - $f.bits as usize >= 2 {
                    let mut buf = canon(&ai);
                    let last = buf.len() - 1;
                    buf[last] |= 0xc0;
                    ctx.class(&format!("{tag}:flags:invalid-SWFlags"));
                    if <$T>::deserialize_with_flags::<_, SWFlags>(&buf[..]).is_ok() {
                        fail(ctx, tag, "deserialize_with_flags<SWFlags>", "accepts the invalid flag pattern 0b11".to_string())?;
                    }
                }
            }
            Item::Str { s } => {
                ctx.sub_eval();
                let r = <$T>::from_str(s);
                // only canonical numerals have a meaning fixed by the property
                let canonical = !s.is_empty() && s.bytes().all(|c| c.is_ascii_digit()) && (s == "0" || !s.starts_with('0'));
                if canonical {
                    let n = N::parse_bytes(s.as_bytes(), 10).unwrap();
                    if n < f.m {
                        ctx.class(&format!("{tag}:FromStr:canonical"));
                        match r {
                            Ok(x) if x.to_bytes_le()[..] == canon(&n)[..] => {}
                            other => fail(ctx, tag, "FromStr", format!("{s:?} parses to {:?}", other.map(|x| hex::encode(x.to_bytes_le()))))?,
                        }
                    }
                } else {
                    ctx.class(&format!("{tag}:FromStr:other(no-panic-only)"));
                }
            }
            Item::Big { n } => {
                ctx.sub_eval();
                let x: $T = n.0.clone().into();
                if x.to_bytes_le()[..] != canon(&(&n.0 % &f.m))[..] {
                    fail(ctx, tag, "From<BigUint>", format!("{:x} -> {}", n.0, hex::encode(x.to_bytes_le())))?;
                }
            }
            _ => {}
        }
        Ok::<(), Failure>(())
    }};
}

fn run(case: &Case, ctx: &mut Ctx) -> Result<(), Failure> {
    let f = case.f.fld();
    let tag = format!("{}:{}", case.bk.name(), case.f.name());
    let item = &case.item;
    match (case.bk, case.f) {
        (Bk::Ark, FId::Fq) => {
            inherent_checks!(decaf377::Fq, 32, &tag, f, item, ctx)?;
            ark_checks!(decaf377::Fq, 32, 4, &tag, f, item, ctx)
        }
        (Bk::Ark, FId::Fr) => {
            inherent_checks!(decaf377::Fr, 32, &tag, f, item, ctx)?;
            ark_checks!(decaf377::Fr, 32, 4, &tag, f, item, ctx)
        }
        (Bk::Ark, FId::Fp) => {
            inherent_checks!(decaf377::Fp, 48, &tag, f, item, ctx)?;
            ark_checks!(decaf377::Fp, 48, 6, &tag, f, item, ctx)
        }
        (Bk::Min, FId::Fq) => inherent_checks!(decaf377_min::Fq, 32, &tag, f, item, ctx),
        (Bk::Min, FId::Fr) => inherent_checks!(decaf377_min::Fr, 32, &tag, f, item, ctx),
        (Bk::Min, FId::Fp) => inherent_checks!(decaf377_min::Fp, 48, &tag, f, item, ctx),
    }
}

/// integers below 2^(8*nbytes) around everything that matters for canonicity
fn near_modulus(f: &'static Fld) -> BoxedStrategy<(Num, String)> {
    let m = f.m.clone();
    let top = N::one() << (8 * f.nbytes);
    let (m1, m2, m3, t1, t2) = (m.clone(), m.clone(), m.clone(), top.clone(), top.clone());
    let bits = f.bits as u64;
    let nb = f.nbytes;
    prop_oneof![
        3 => gen::fe(&m).prop_map(|v| (v, "below-m".to_string())),
        2 => (0u32..4096).prop_map(move |s| (Num(&m1 + N::from(s)), "m+small".to_string())),
        2 => (1u32..4096).prop_map(move |s| (Num(&m2 - N::from(s)), "m-small".to_string())),
        1 => (1u32..8, 0u32..16).prop_map(move |(k, s)| (Num((&m3 * N::from(k) + N::from(s)) % &t1), "k*m+small".to_string())),
        2 => (0u64..(8 * nb as u64)).prop_map(move |k| (Num(N::one() << k), "2^k".to_string())),
        1 => (bits - 2..(8 * nb as u64)).prop_map(move |k| (Num((N::one() << k) - 1u32), "2^k-1".to_string())),
        1 => Just((Num(&t2 - 1u32), "all-ones".to_string())),
        2 => proptest::collection::vec(any::<u8>(), nb).prop_map(|b| (Num(N::from_bytes_le(&b)), "uniform-bytes".to_string())),
        1 => gen::limb_vec(nb / 8).prop_map(|l| (Num(crate::api::int_of_limbs(&l)), "limb-pattern".to_string())),
        // values that tie with the modulus in their top k 64-bit limbs; every lower limb is 0, all ones,
        // the modulus' own limb, that limb +-1, 2^63, or random: what a limb-wise comparison (range check
        // written as a chain of tie clauses) has to get right, above and below the modulus
        4 => {
            let m4 = f.m.clone();
            let nl = nb / 8;
            (1usize..nl.max(2), proptest::collection::vec((0u8..8, any::<u64>()), nl)).prop_map(move |(k, low)| {
                let ml = m4.to_u64_digits();
                let mut limbs: Vec<u64> = (0..nl).map(|i| ml.get(i).copied().unwrap_or(0)).collect();
                for i in 0..nl.saturating_sub(k) {
                    let (pat, rnd) = low[i];
                    limbs[i] = match pat {
                        0 => 0,
                        1 => u64::MAX,
                        2 => limbs[i],
                        3 => limbs[i].wrapping_add(1),
                        4 => limbs[i].wrapping_sub(1),
                        5 => 1u64 << 63,
                        _ => rnd,
                    };
                }
                (Num(crate::api::int_of_limbs(&limbs)), "ties-with-modulus".to_string())
            })
        },
    ]
    .boxed()
}

fn item(f: FId) -> BoxedStrategy<Item> {
    let fl = f.fld();
    let m = fl.m.clone();
    prop_oneof![
        4 => (gen::bytes(0..=200usize), any::<bool>()).prop_map(|(b, be)| Item::Reduce { bytes: HexBytes(b), be }),
        // multiples / neighbours of the modulus as byte strings of the natural length and longer
        1 => (near_modulus(fl), 0usize..40, any::<bool>()).prop_map(|((v, _), pad, be)| {
            let mut b = v.0.to_bytes_le();
            b.extend(std::iter::repeat(0).take(pad));
            if be { b.reverse(); }
            Item::Reduce { bytes: HexBytes(b), be }
        }),
        5 => near_modulus(fl).prop_map(|(v, family)| Item::Checked { v, family }),
        5 => (gen::fe(&m), gen::fe(&m), any::<u8>(), any::<bool>()).prop_map(|(a, b, flag_sel, same)| Item::Elems { b: if same { a.clone() } else { b }, a, flag_sel }),
        // values with decimal structure: a * 10^k + c (long runs of zero digits, aligned or not with any
        // digit grouping), 10^k - 1 (runs of nines), for printers and parsers that work in digit groups
        2 => {
            let m3 = m.clone();
            (0u32..116, 0u32..60, 1u64..1000, prop_oneof![Just(0u64), Just(1u64), Just(5u64), 0u64..1_000_000_000], 0u8..3, any::<u8>()).prop_map(move |(k, k2, a, c, kind, flag_sel)| {
                let ten = N::from(10u32);
                let v = match kind {
                    0 => N::from(a) * ten.pow(k) + N::from(c),
                    1 => N::from(a) * ten.pow(k) + N::from(c) * ten.pow(k2.min(k)),
                    _ => ten.pow(k) - 1u32,
                } % &m3;
                Item::Elems { b: Num((&v + 1u32) % &m3), a: Num(v), flag_sel }
            })
        },
        // pairs that agree in most limbs and differ in two limbs in opposite directions
        // (b = a + u*2^(64i) - v*2^(64j)): what a limb-order slip in Ord / Eq / Hash needs
        3 => {
            let m2 = m.clone();
            let nl = ((fl.bits + 63) / 64) as u32;
            (gen::fe(&m), 0u32..nl, 0u32..nl, prop_oneof![Just(1u64), Just(2u64), any::<u64>()], prop_oneof![Just(1u64), Just(2u64), any::<u64>()], any::<u8>())
                .prop_map(move |(a, i, j, u, v, flag_sel)| {
                    let up = (N::from(u) << (64 * i as u64)) % &m2;
                    let down = (N::from(v) << (64 * j as u64)) % &m2;
                    let b = (&a.0 + up + &m2 - down) % &m2;
                    Item::Elems { a, b: Num(b), flag_sel }
                })
        },
        1 => gen::limb_vec(2usize).prop_map(|l| Item::Ints { v: Num(crate::api::int_of_limbs(&l)) }),
        1 => prop_oneof![
            "[0-9]{1,120}".prop_map(|s| s),
            "0{0,3}[0-9]{0,80}".prop_map(|s| s),
            "[ -~]{0,20}".prop_map(|s| s),
            Just(String::new()),
            Just("-1".to_string()),
            Just("+5".to_string()),
            Just("١٢٣".to_string()),
        ].prop_map(|s| Item::Str { s }),
        1 => proptest::collection::vec(any::<u8>(), 0..=75usize).prop_map(|b| Item::Big { n: Num(N::from_bytes_le(&b)) }),
    ]
    .boxed()
}

impl Property for C11 {
    type Case = Case;
    const ID: &'static str = "C11";
    fn rule(&self) -> String {
        "cases per field and backend: byte strings of length 0..=200 in both endiannesses (structured bytes; multiples and neighbours of the modulus, \
         zero-padded); integers below 2^(8N) around the modulus (m-small, m, m+small, k*m, 2^k, 2^k-1, all-ones, limb patterns) offered to every \
         checked parser (from_bytes_checked, from_bigint, the four stream deserialisers, deserialize_with_flags<EmptyFlags>); element pairs for \
         to_bytes, ==, Ord, Hash (recorded stream), Display/FromStr, BigUint/BigInt views, serialize_compressed/uncompressed, flag round trips for \
         EmptyFlags / both TEFlags / all three SWFlags and the invalid SWFlags pattern; u8..u128/bool conversions; strings; big integers up to 600 \
         bits. Oracle: the integer, in BigUint. Non-trivial: input from a boundary / non-canonical / length != element-size class; distinct by digest"
            .into()
    }
    fn assumptions(&self) -> Vec<String> {
        vec![
            "Display of zero may be \"\" (as ark_ff::Fp) or \"0\"".into(),
            "FromStr is only compared on canonical decimal numerals of integers below the modulus; other strings are fed in for 'no panic' only".into(),
            "flag types wider than the spare bits of the last byte are outside 'the standard flag types'".into(),
            "the minimal configuration offers only the inherent subset (bytes, reduction, checked parse, integer conversions, ==, Ord, Hash)".into(),
        ]
    }
    fn cases(&self, tier: Tier) -> u64 {
        tier.pick(1_500_000, 20_000_000)
    }
    fn strategy(&self, _tier: Tier) -> BoxedStrategy<Case> {
        let mut arms = Vec::new();
        for bk in [Bk::Ark, Bk::Min] {
            for f in [FId::Fq, FId::Fr, FId::Fp] {
                arms.push(item(f).prop_map(move |item| Case { bk, f, item }).boxed());
            }
        }
        proptest::strategy::Union::new(arms).boxed()
    }
    fn edges(&self, _tier: Tier) -> Vec<Case> {
        let mut v = Vec::new();
        for bk in [Bk::Ark, Bk::Min] {
            for f in [FId::Fq, FId::Fr, FId::Fp] {
                let fl = f.fld();
                let m = &fl.m;
                let top = N::one() << (8 * fl.nbytes);
                let vals: Vec<(N, &str)> = vec![
                    (N::zero(), "zero"),
                    (N::one(), "one"),
                    (m - 1u32, "m-1"),
                    (m.clone(), "m"),
                    (m + 1u32, "m+1"),
                    ((m * 2u32) % &top, "2m"),
                    (N::one() << fl.bits, "2^bits"),
                    (N::one() << (fl.bits - 1), "2^(bits-1)"),
                    (&top - 1u32, "all-ones"),
                    ((m + 12345u32) % &top, "m+small"),
                ];
                for (val, fam) in &vals {
                    v.push(Case { bk, f, item: Item::Checked { v: Num(val.clone()), family: fam.to_string() } });
                    for be in [false, true] {
                        let mut b = val.to_bytes_le();
                        b.resize(fl.nbytes, 0);
                        if be {
                            b.reverse();
                        }
                        v.push(Case { bk, f, item: Item::Reduce { bytes: HexBytes(b), be } });
                    }
                    for sel in 0..6u8 {
                        v.push(Case { bk, f, item: Item::Elems { a: Num(val % m), b: Num((val + 1u32) % m), flag_sel: sel } });
                    }
                }
                for len in 0..=100usize {
                    for be in [false, true] {
                        v.push(Case { bk, f, item: Item::Reduce { bytes: HexBytes(vec![0xff; len]), be } });
                        let mut b = vec![0u8; len];
                        if len > 0 {
                            b[len - 1] = 1;
                        }
                        v.push(Case { bk, f, item: Item::Reduce { bytes: HexBytes(b), be } });
                    }
                }
                for x in [0u128, 1, 255, 256, 65535, 65536, u32::MAX as u128, 1 << 32, u64::MAX as u128, 1 << 64, u128::MAX, (1 << 127) + 12345] {
                    let n = N::from(x);
                    v.push(Case { bk, f, item: Item::Ints { v: Num(n) } });
                }
                for s in ["0", "1", "10", "00", "", "12a", " 1", "340282366920938463463374607431768211456"] {
                    v.push(Case { bk, f, item: Item::Str { s: s.to_string() } });
                }
                v.push(Case { bk, f, item: Item::Str { s: (m - 1u32).to_str_radix(10) } });
                v.push(Case { bk, f, item: Item::Str { s: m.to_str_radix(10) } });
                v.push(Case { bk, f, item: Item::Big { n: Num(m.clone()) } });
                v.push(Case { bk, f, item: Item::Big { n: Num(m * m + 5u32) } });
            }
        }
        v
    }
    fn check(&self, case: &Case, ctx: &mut Ctx) -> Result<(), Failure> {
        let f = case.f.fld();
        let nt = match &case.item {
            Item::Reduce { bytes, .. } => bytes.0.len() != f.nbytes || N::from_bytes_le(&bytes.0) >= f.m,
            Item::Checked { family, .. } => family != "below-m" && family != "uniform-bytes",
            Item::Elems { a, b, .. } => a == b || gen::classify_fe(&(&a.0 % &f.m), &f.m) != "uniform",
            Item::Ints { .. } | Item::Big { .. } => true,
            Item::Str { .. } => true,
        };
        if nt {
            ctx.nontrivial();
        }
        ctx.class(&format!(
            "{}:{}:{}",
            case.bk.name(),
            case.f.name(),
            match &case.item {
                Item::Reduce { be, .. } => if *be { "reduce-be" } else { "reduce-le" },
                Item::Checked { .. } => "checked",
                Item::Elems { .. } => "elems",
                Item::Ints { .. } => "ints",
                Item::Str { .. } => "str",
                Item::Big { .. } => "big",
            }
        ));
        run(case, ctx)
    }
    fn required_classes(&self, _tier: Tier) -> Vec<String> {
        let mut v = Vec::new();
        for bk in ["ark", "min"] {
            for f in ["Fq", "Fr", "Fp"] {
                for k in ["reduce-le", "checked", "elems", "ints"] {
                    v.push(format!("{bk}:{f}:{k}"));
                }
                v.push(format!("{bk}:{f}:checked:canonical"));
                v.push(format!("{bk}:{f}:checked:non-canonical"));
                for l in ["0", "<N", "=N", "<=2N", ">2N"] {
                    v.push(format!("{bk}:{f}:reduce:len{l}"));
                }
            }
        }
        for f in ["Fq", "Fr", "Fp"] {
            for k in ["reduce-be", "str", "big"] {
                v.push(format!("ark:{f}:{k}"));
            }
            for fl in ["EmptyFlags", "TEFlags::XIsPositive", "TEFlags::XIsNegative", "SWFlags::YIsPositive", "SWFlags::YIsNegative", "SWFlags::PointAtInfinity", "invalid-SWFlags"] {
                v.push(format!("ark:{f}:flags:{fl}"));
            }
        }
        v
    }
}
