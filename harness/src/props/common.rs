//! Helpers shared by the property modules.

use crate::gen::{self, pick, HexBytes, Num};
use crate::refmodel::{le32, Pt, CURVE, GEN, N, Q};
use num_traits::{One, Zero};
use proptest::prelude::*;
use serde::{Deserialize, Serialize};

#[derive(Clone, Copy, Debug, Serialize, Deserialize, PartialEq, Eq, Hash)]
pub enum Bk {
    Ark,
    Min,
}

impl Bk {
    pub fn name(self) -> &'static str {
        match self {
            Bk::Ark => "ark",
            Bk::Min => "min",
        }
    }
}

/// run `$body` with the type alias `$B` bound to the selected backend
#[macro_export]
macro_rules! with_backend {
    ($bk:expr, $B:ident => $body:expr) => {
        match $bk {
            $crate::props::common::Bk::Ark => {
                type $B = $crate::api::Ark;
                $body
            }
            $crate::props::common::Bk::Min => {
                type $B = $crate::api::Min;
                $body
            }
        }
    };
}

/// ark `ark_w` times as often as min (min is ~20x slower with its assertions on)
pub fn backend(ark_w: u32, min_w: u32) -> BoxedStrategy<Bk> {
    prop_oneof![ark_w => Just(Bk::Ark), min_w => Just(Bk::Min)].boxed()
}

/// A cheap source of valid model points (no 253-bit model scalar multiplication):
/// Elligator images, small multiples of G, sums of the two.
#[derive(Clone, Debug, Serialize, Deserialize, PartialEq, Eq, Hash)]
pub enum PtSrc {
    Ell(Num),
    SmallMul(u32),
    EllPlusSmall(Num, u32),
}

impl PtSrc {
    pub fn point(&self) -> Pt {
        let c = &*CURVE;
        match self {
            PtSrc::Ell(r) => c.elligator_spec(&r.0),
            PtSrc::SmallMul(k) => c.mul(&N::from(*k), &GEN),
            PtSrc::EllPlusSmall(r, k) => c.add(&c.elligator_spec(&r.0), &c.mul(&N::from(*k), &GEN)),
        }
    }
}

pub fn pt_src() -> BoxedStrategy<PtSrc> {
    prop_oneof![
        5 => gen::fq().prop_map(PtSrc::Ell),
        2 => (0u32..4096).prop_map(PtSrc::SmallMul),
        1 => (gen::fq(), 0u32..64).prop_map(|(r, k)| PtSrc::EllPlusSmall(r, k)),
    ]
    .boxed()
}

/// A 32-byte string together with the family it was built from.
#[derive(Clone, Debug, Serialize, Deserialize, PartialEq, Eq, Hash)]
pub struct Bytes32 {
    pub family: String,
    pub bytes: HexBytes,
}

impl Bytes32 {
    pub fn new(family: &str, v: &N) -> Bytes32 {
        Bytes32 { family: family.to_string(), bytes: HexBytes(le32(v).to_vec()) }
    }
    pub fn arr(&self) -> [u8; 32] {
        self.bytes.arr32().expect("32 bytes")
    }
    pub fn int(&self) -> N {
        N::from_bytes_le(&self.bytes.0)
    }
}

fn two256() -> N {
    N::one() << 256
}

/// the absolute boundary values of DESIGN §4
pub fn boundary_values() -> Vec<N> {
    let q = &Q.m;
    vec![
        N::zero(),
        N::one(),
        N::from(2u32),
        N::from(8u32),
        q - 1u32,
        q.clone(),
        q + 1u32,
        q - 2u32,
        q * 2u32,
        q * 2u32 - 1u32,
        (q - 1u32) >> 1,
        (q + 1u32) >> 1,
        N::one() << 252,
        (N::one() << 253) - 1u32,
        N::one() << 253,
        (N::one() << 253) + 8u32,
        N::one() << 254,
        N::one() << 255,
        two256() - 1u32,
    ]
}

/// all near-miss variants of the valid encoding `s` that are selected by (`which`, `arg`)
pub fn near_miss(s: &N, which: u8, arg: u16) -> Bytes32 {
    let q = &Q.m;
    match which % 8 {
        0 => Bytes32::new("valid", s),
        1 => {
            // s + kq for every k with s + kq < 2^256
            let kmax = ((two256() - 1u32 - s) / q).to_u32_digits().first().copied().unwrap_or(0) as usize;
            let k = 1 + pick(arg, kmax.max(1));
            let v = s + q * N::from(k as u32);
            if v < two256() {
                Bytes32::new("alias-s+kq", &v)
            } else {
                Bytes32::new("valid", s)
            }
        }
        2 => Bytes32::new("negation-q-s", &((q - s) % q)),
        3 => {
            let i = pick(arg, 256) as u64;
            let mut v = s.clone();
            v.set_bit(i, !s.bit(i));
            let fam = if i == 0 { "bitflip-lsb" } else if i >= 253 { "bitflip-high" } else { "bitflip-mid" };
            Bytes32::new(fam, &v)
        }
        4 => {
            let b = 253 + pick(arg, 3) as u64;
            let mut v = s.clone();
            v.set_bit(b, true);
            Bytes32::new("highbit-set", &v)
        }
        5 => {
            let bv = boundary_values();
            Bytes32::new("boundary", &bv[pick(arg, bv.len())])
        }
        6 => Bytes32::new("valid+1", &((s + 1u32) % two256())),
        _ => Bytes32::new("valid", s),
    }
}

/// 32-byte strings: half derived from a valid encoding (near-miss families), the rest
/// boundary values and uniform strings
pub fn bytes32_near() -> BoxedStrategy<Bytes32> {
    prop_oneof![
        6 => (pt_src(), any::<u8>(), any::<u16>()).prop_map(|(src, which, arg)| {
            let s = CURVE.encode_spec(&src.point());
            near_miss(&s, which, arg)
        }),
        1 => any::<u16>().prop_map(|i| {
            let bv = boundary_values();
            Bytes32::new("boundary", &bv[pick(i, bv.len())])
        }),
        2 => proptest::collection::vec(any::<u8>(), 32).prop_map(|b| Bytes32 { family: "uniform".into(), bytes: HexBytes(b) }),
        // uniform below 2^253 (top three bits clear): reaches the square/non-square and sign tests
        2 => proptest::collection::vec(any::<u8>(), 32).prop_map(|mut b| { b[31] &= 0x1f; Bytes32 { family: "uniform-253".into(), bytes: HexBytes(b) } }),
        1 => gen::fq().prop_map(|v| Bytes32::new("field-pattern", &v.0)),
        // strings that tie with q in their top 1..3 64-bit limbs (below and above q; a quarter of the even
        // ones below q are valid encodings): what a limb-wise canonicity check has to get right
        1 => (1usize..4, proptest::collection::vec(any::<u64>(), 4), any::<bool>()).prop_map(|(k, rnd, even)| {
            let ql = Q.m.to_u64_digits();
            let mut limbs = ql.clone();
            for i in 0..4 - k {
                limbs[i] = rnd[i];
            }
            if even {
                limbs[0] &= !1;
            }
            Bytes32::new("ties-with-q", &crate::api::int_of_limbs(&limbs))
        }),
        // s solved from a structured intermediate value of decoding (DESIGN §12.4)
        1 => gen::s_targeted().prop_map(|v| Bytes32::new("targeted-intermediate", &v.0)),
    ]
    .boxed()
}
