//! C13 — R1CS gadgets compute what the native code computes, and are complete; lazy
//! evaluation order does not matter (DESIGN §5/C13).

use crate::api::ark;
use crate::engine::{Ctx, Failure, Property, Tier};
use crate::gen::Num;
use crate::r1cs_lang::{self as rl, elem_eq_exact, native_of, new_cs, GOp, Mode, Via, AE};
use crate::recipe::{self, Recipe};
use crate::refmodel::{N, Q};
use ark_r1cs_std::prelude::*;
use ark_r1cs_std::R1CSVar;
use decaf377::r1cs::{ElementVar, FqVar};
use proptest::prelude::*;
use serde::{Deserialize, Serialize};

pub struct C13;

#[derive(Clone, Copy, Debug, Serialize, Deserialize, PartialEq, Eq, Hash)]
pub enum HOp {
    ForceElement,
    ForceEncoding,
    Value,
    UseInAdd,
    UseInEq,
    CloneThenForce,
}

#[derive(Clone, Debug, Serialize, Deserialize)]
pub enum Case {
    Program { prog: Vec<GOp> },
    /// a lazy variable started from its encoding (`from_encoding`) or from an element, and a
    /// history of forcing operations
    History { src: Recipe, from_encoding: bool, mode: Mode, ops: Vec<HOp> },
}

fn alloc(cs: &ark_relations::r1cs::ConstraintSystemRef<ark::Fq>, e: &AE, from_encoding: bool, mode: Mode) -> Result<ElementVar, ark_relations::r1cs::SynthesisError> {
    let m = match mode {
        Mode::Witness => AllocationMode::Witness,
        Mode::Input => AllocationMode::Input,
        Mode::Constant => AllocationMode::Constant,
    };
    if from_encoding {
        <ElementVar as AllocVar<ark::Fq, ark::Fq>>::new_variable(cs.clone(), || Ok(e.vartime_compress_to_field()), m)
    } else {
        <ElementVar as AllocVar<AE, ark::Fq>>::new_variable(cs.clone(), || Ok(*e), m)
    }
}

/// Constraints added, on a fresh system, by forcing the element then the encoding (e1, c2)
/// and the encoding then the element (c1, e2).
struct RefCosts {
    e1: usize,
    c2: usize,
    c1: usize,
    e2: usize,
}

fn reference_costs(e: &AE, from_encoding: bool, mode: Mode) -> Result<RefCosts, String> {
    let run = |elem_first: bool| -> Result<(usize, usize), String> {
        let cs = new_cs(false);
        let v = alloc(&cs, e, from_encoding, mode).map_err(|e| format!("{e:?}"))?;
        let n0 = cs.num_constraints();
        if elem_first {
            let _ = v.cs();
            let n1 = cs.num_constraints();
            let _ = v.compress_to_field().map_err(|e| format!("{e:?}"))?;
            Ok((n1 - n0, cs.num_constraints() - n1))
        } else {
            let _ = v.compress_to_field().map_err(|e| format!("{e:?}"))?;
            let n1 = cs.num_constraints();
            let _ = v.cs();
            Ok((n1 - n0, cs.num_constraints() - n1))
        }
    };
    let (e1, c2) = run(true)?;
    let (c1, e2) = run(false)?;
    Ok(RefCosts { e1, c2, c1, e2 })
}

fn history(src: &Recipe, from_encoding: bool, mode: Mode, ops: &[HOp], ctx: &mut Ctx) -> Result<(), Failure> {
    let native = native_of(src);
    // a constant field encoding cannot be decoded in-circuit (MissingCS): not a supported start
    let mode = if from_encoding && mode == Mode::Constant { Mode::Witness } else { mode };
    let is_const = mode == Mode::Constant;
    let costs = if is_const {
        None
    } else {
        match reference_costs(&native, from_encoding, mode) {
            Ok(c) => Some(c),
            Err(why) => return ctx.report("C13|history|reference-synthesis", why),
        }
    };
    if let Some(c) = &costs {
        if c.e1 + c.c2 != c.c1 + c.e2 {
            ctx.report("C13|history|order-dependent-cost", format!("element then encoding costs {}+{} constraints, encoding then element {}+{}", c.e1, c.c2, c.c1, c.e2))?;
        }
    }
    let err = |what: &str, e: ark_relations::r1cs::SynthesisError| Failure { signature: format!("C13|history|{what}"), message: format!("{e:?}") };
    let cs = new_cs(false);
    let var = alloc(&cs, &native, from_encoding, mode).map_err(|e| err("alloc", e))?;
    let other = <ElementVar as AllocVar<AE, ark::Fq>>::new_variable(cs.clone(), || Ok(AE::GENERATOR), AllocationMode::Witness).map_err(|e| err("alloc", e))?;
    let _ = other.cs();
    let base = cs.num_constraints();
    // "forced by this history at least once"
    let (mut elt_forced, mut enc_forced) = (false, false);
    let mut kinds = std::collections::BTreeSet::new();
    let mut own_constraints = false;
    ctx.class(&format!("history:start:{}:{mode:?}", if from_encoding { "encoding" } else { "element" }));
    let enc_native = native.vartime_compress_to_field();
    for (i, op) in ops.iter().enumerate() {
        let before = cs.num_constraints();
        ctx.class(&format!("history:{op:?}"));
        ctx.sub_eval();
        match op {
            HOp::ForceElement | HOp::Value => {
                kinds.insert("elt");
                if *op == HOp::ForceElement {
                    let _ = var.cs();
                } else {
                    match var.value() {
                        Ok(v) => {
                            if let Err(why) = elem_eq_exact(&v, &native) {
                                ctx.report("C13|history|value-changed", format!("step {i}: {why}"))?;
                            }
                        }
                        Err(e) => ctx.report("C13|history|value-error", format!("step {i}: {e:?}"))?,
                    }
                }
                let added = cs.num_constraints() - before;
                if elt_forced && added != 0 {
                    ctx.report("C13|history|reforce-element-adds-constraints", format!("step {i}: forcing the already forced element added {added} constraints"))?;
                }
                if let (false, Some(c)) = (elt_forced, &costs) {
                    let want = if enc_forced { c.e2 } else { c.e1 };
                    if added != want {
                        ctx.report("C13|history|first-force-cost", format!("step {i}: first forcing of the element added {added} constraints, a fresh reference synthesis adds {want}"))?;
                    }
                }
                elt_forced = true;
            }
            HOp::ForceEncoding => {
                if is_const {
                    continue;
                }
                let enc = var.compress_to_field().map_err(|e| err("compress", e))?;
                kinds.insert("enc");
                let added = cs.num_constraints() - before;
                if enc_forced && added != 0 {
                    ctx.report("C13|history|reforce-encoding-adds-constraints", format!("step {i}: forcing the already forced encoding added {added} constraints"))?;
                }
                if let (false, Some(c)) = (enc_forced, &costs) {
                    let want = if elt_forced { c.c2 } else { c.c1 };
                    if added != want {
                        ctx.report("C13|history|first-force-cost", format!("step {i}: first forcing of the encoding added {added} constraints, a fresh reference synthesis adds {want}"))?;
                    }
                }
                enc_forced = true;
                match enc.value() {
                    Ok(v) if v == enc_native => {}
                    other => ctx.report("C13|history|encoding-value", format!("step {i}: encoding value {:?} differs from the native encoding", other.map(|v| hex::encode(v.to_bytes()))))?,
                }
            }
            HOp::UseInAdd => {
                kinds.insert("elt");
                own_constraints = true;
                let sum = var.clone() + &other;
                // (the clone consumed by `+` is forced, not `var` itself, unless already forced)
                match sum.value() {
                    Ok(v) => {
                        if let Err(why) = elem_eq_exact(&v, &(native + AE::GENERATOR)) {
                            ctx.report("C13|history|use-in-add", format!("step {i}: {why}"))?;
                        }
                    }
                    Err(e) => ctx.report("C13|history|value-error", format!("step {i}: {e:?}"))?,
                }
            }
            HOp::UseInEq => {
                kinds.insert("elt");
                own_constraints = true;
                let b = var.is_eq(&other).map_err(|e| err("is_eq", e))?;
                elt_forced = true;
                if b.value().ok() != Some(native == AE::GENERATOR) {
                    ctx.report("C13|history|use-in-eq", format!("step {i}: is_eq gives {:?}", b.value()))?;
                }
            }
            HOp::CloneThenForce => {
                // cloning an *unforced* variable and forcing the clone duplicates the decode
                // constraints; that changes neither values nor already emitted constraints and is
                // recorded, not asserted against (DESIGN §8). The clone must agree on values.
                own_constraints = true;
                let c = var.clone();
                match c.value() {
                    Ok(v) => {
                        if let Err(why) = elem_eq_exact(&v, &native) {
                            ctx.report("C13|history|clone-value", format!("step {i}: {why}"))?;
                        }
                    }
                    Err(e) => ctx.report("C13|history|value-error", format!("step {i}: {e:?}"))?,
                }
                if cs.num_constraints() > before {
                    ctx.class("history:clone-of-unforced-duplicates-constraints(recorded)");
                }
            }
        }
        if cs.num_constraints() < before {
            ctx.report("C13|history|constraints-decreased", format!("step {i}: constraint count went from {before} to {}", cs.num_constraints()))?;
        }
        if !cs.is_satisfied().unwrap_or(false) {
            ctx.report("C13|history|unsatisfied", format!("step {i} ({op:?}): constraint system no longer satisfied"))?;
            return Ok(());
        }
    }
    if kinds.len() >= 2 {
        ctx.nontrivial();
    }
    // holding both representations costs exactly what the reference says, whatever the order and repetition
    if let (true, true, false, Some(c)) = (elt_forced, enc_forced, own_constraints, &costs) {
        let total = cs.num_constraints() - base;
        if total != c.e1 + c.c2 {
            ctx.report("C13|history|total-cost", format!("history {ops:?}: {total} constraints for both representations, reference synthesis needs {}", c.e1 + c.c2))?;
        }
    }
    Ok(())
}

impl Property for C13 {
    type Case = Case;
    const ID: &'static str = "C13";
    fn rule(&self) -> String {
        "cases: (i) gadget programs: a prologue allocating two elements (recipes: all representatives; modes Witness/Input/Constant; via Element, \
         AffinePoint or field encoding) and two field elements (valid encodings and every invalid class of C02, Elligator / isqrt inputs), then 1..=8 \
         random gadget applications (compress, decompress, Elligator, 8 add/sub forms, 4 constant forms, negate, double, double_in_place, scalar_mul_le \
         with witness or constant bits, is_eq/is_neq, is_zero, (conditional) enforce (not) equal with witness or constant conditions, conditional select (witness or constant condition), vector select over 1..8 registers, lazily allocated (possibly undecodable) operands, value() reads, isqrt, sign tests, abs, to_bits/to_bytes), \
         honest prover. After every step: output value() equals the native output (element, encoding bytes, well-formed coordinates), the system is \
         satisfied; a natively failing step (invalid decode, violated enforce) must leave it unsatisfied. (ii) histories on a lazy variable (start from \
         encoding or element; ForceElement/ForceEncoding/Value/UseInAdd/UseInEq/CloneThenForce): values unchanged, satisfied, constraint count \
         monotone, re-forcing adds 0 constraints, first-force cost equals a fresh reference synthesis and is order-independent. Non-trivial: program \
         with a decode/encode/Elligator gadget on a non-constant variable, or history with >= 2 different forcing kinds; distinct by digest"
            .into()
    }
    fn assumptions(&self) -> Vec<String> {
        vec![
            "gadgets that must allocate (isqrt, hence compress/decompress/Elligator) return MissingCS on all-constant inputs; constants are used only as operands of add/sub/select/eq/scalar-mul, as in the repository's own circuits".into(),
            "cloning an unforced lazy variable and forcing both copies duplicates the decode constraints: recorded, not asserted against".into(),
            "ToBits/ToBytes gadgets have no native counterpart: executed for 'no error, system stays satisfied' only".into(),
            "native = the arkworks configuration of the library itself (decided against the model by C01-C09)".into(),
        ]
    }
    fn cases(&self, tier: Tier) -> u64 {
        tier.pick(8_000, 300_000)
    }
    fn max_shrink_iters(&self) -> u32 {
        256
    }
    fn strategy(&self, tier: Tier) -> BoxedStrategy<Case> {
        let max_ops = tier.pick(8, 16) as usize;
        let hop = prop_oneof![Just(HOp::ForceElement), Just(HOp::ForceEncoding), Just(HOp::Value), Just(HOp::UseInAdd), Just(HOp::UseInEq), Just(HOp::CloneThenForce)];
        prop_oneof![
            5 => rl::program(max_ops).prop_map(|prog| Case::Program { prog }),
            1 => (recipe::recipe_small(), any::<bool>(), prop_oneof![Just(Mode::Witness), Just(Mode::Input), Just(Mode::Constant)], proptest::collection::vec(hop, 0..=12))
                .prop_map(|(src, from_encoding, mode, ops)| Case::History { src, from_encoding, mode, ops }),
        ]
        .boxed()
    }
    fn edges(&self, _tier: Tier) -> Vec<Case> {
        use Recipe::*;
        let g = || Box::new(Generator);
        let elems = vec![Identity, Torsion(Box::new(Identity)), Generator, MinusOneTimes(g()), Torsion(g()), Sub(g(), g())];
        let mut v = Vec::new();
        for e in &elems {
            for (mode, via) in [(Mode::Witness, Via::Element), (Mode::Input, Via::Element), (Mode::Constant, Via::Element), (Mode::Witness, Via::Affine), (Mode::Input, Via::Affine), (Mode::Constant, Via::Affine), (Mode::Witness, Via::Encoding), (Mode::Input, Via::Encoding)] {
                let mut prog = vec![GOp::AllocElem { dst: 0, src: e.clone(), mode, via }, GOp::AllocElem { dst: 1, src: MulGen(7u64.into()), mode: Mode::Witness, via: Via::Element }];
                prog.extend(vec![
                    GOp::Compress { dst: 0, e: 0 },
                    GOp::Decompress { dst: 2, f: 0 },
                    GOp::Bin { dst: 3, form: rl::BinForm::AddVV, a: 0, b: 1 },
                    GOp::Bin { dst: 3, form: rl::BinForm::SubAssignRef, a: 3, b: 1 },
                    GOp::EnforceEqual { a: 3, b: 0 },
                    GOp::Negate { dst: 2, a: 0 },
                    GOp::Double { dst: 2, a: 0 },
                    GOp::ScalarMul { dst: 2, a: 0, k: 5u64.into(), nbits: 3, bits_const: false },
                    GOp::IsEq { a: 0, b: 2 },
                    GOp::CondSelect { dst: 2, cond: true, a: 0, b: 1 },
                    GOp::ToBits { a: 0 },
                ]);
                v.push(Case::Program { prog });
            }
            for from_encoding in [false, true] {
                for ops in [vec![HOp::ForceElement, HOp::ForceEncoding, HOp::ForceEncoding, HOp::ForceElement, HOp::Value], vec![HOp::ForceEncoding, HOp::ForceElement, HOp::Value, HOp::ForceEncoding]] {
                    v.push(Case::History { src: e.clone(), from_encoding, mode: Mode::Witness, ops: ops.clone() });
                    v.push(Case::History { src: e.clone(), from_encoding, mode: Mode::Input, ops });
                }
            }
        }
        // fixed-base multiplication with even / odd numbers of bits and the top bit set; table lookups with
        // every index of 4- and 8-entry tables
        {
            let alloc = |dst: u8, k: u64| GOp::AllocElem { dst, src: MulGen(k.into()), mode: Mode::Witness, via: Via::Element };
            for (nbits, k) in [(1u16, 1u64), (2, 2), (2, 3), (3, 4), (3, 7), (4, 8), (4, 9), (5, 16), (8, 0x80), (8, 0xff), (63, 1 << 62), (64, 1 << 63), (64, u64::MAX)] {
                for bits_const in [false, true] {
                    v.push(Case::Program { prog: vec![alloc(0, 5), GOp::FixedBaseMul { dst: 1, a: 0, base: Generator, k: k.into(), nbits, bits_const }, GOp::Compress { dst: 0, e: 1 }] });
                }
            }
            for (bits, n) in [(2u8, 4u8), (3, 8)] {
                for index in 0..n {
                    for bits_const in [false, true] {
                        v.push(Case::Program { prog: vec![alloc(0, 3), alloc(1, 5), alloc(2, 7), alloc(3, 11), GOp::Double { dst: 1, a: 1 }, GOp::SelectVector { dst: 0, bits, index, regs: vec![0, 1, 2, 3, 1, 0, 3, 2], bits_const }, GOp::Compress { dst: 0, e: 0 }] });
                    }
                }
            }
        }
        // lazily allocated operands (valid and undecodable encodings) whose first consumer is an equality /
        // selection gadget: a gadget that works on the encodings alone must still reject the undecodable one
        for (a, b) in [(8u32, 3u32), (3, 8), (8, 8), (3, 3), (0, 2), (2, 0), (8, 1), (1, 8)] {
            for (ma, mb) in [(Mode::Witness, Mode::Input), (Mode::Witness, Mode::Witness), (Mode::Input, Mode::Witness)] {
                for g in [
                    GOp::CondSelect { dst: 2, cond: true, a: 0, b: 1 },
                    GOp::CondSelect { dst: 2, cond: false, a: 0, b: 1 },
                    GOp::CondSelectConst { dst: 2, cond: true, a: 0, b: 1 },
                    GOp::CondSelectConst { dst: 2, cond: false, a: 0, b: 1 },
                    GOp::IsEq { a: 0, b: 1 },
                    GOp::IsNeq { a: 0, b: 1 },
                    GOp::EnforceEqual { a: 0, b: 1 },
                    GOp::EnforceNotEqual { a: 0, b: 1 },
                    GOp::CondEnforceEqual { a: 0, b: 1, cond: true },
                    GOp::CondEnforceEqual { a: 0, b: 1, cond: false },
                    GOp::CondEnforceEqualConst { a: 0, b: 1, cond: false },
                    GOp::CondEnforceNotEqualConst { a: 0, b: 1, cond: true },
                ] {
                    let mut prog = vec![GOp::AllocLazy { dst: 0, val: Num(N::from(a)), mode: ma }, GOp::AllocLazy { dst: 1, val: Num(N::from(b)), mode: mb }, g.clone()];
                    if let GOp::CondSelect { .. } | GOp::CondSelectConst { .. } = g {
                        prog.push(GOp::Compress { dst: 0, e: 2 });
                    }
                    v.push(Case::Program { prog });
                }
            }
        }
        // the identity held as (0, -1): a witnessed (decoded, canonical) copy minus a constant copy of a
        // non-canonical representative; every boolean / equality gadget on it
        for src in [Torsion(g()), MinusOneTimes(g()), Torsion(Box::new(MulGen(6u64.into()))), MulLimbs(crate::refmodel::R.m.to_u64_digits(), g()), Neg(Box::new(Torsion(Box::new(Elligator(3u64.into())))))] {
            for mode in [Mode::Witness, Mode::Input] {
                let pre = vec![
                    GOp::AllocElem { dst: 0, src: src.clone(), mode, via: Via::Element },
                    GOp::Realloc { dst: 1, a: 0, mode: Mode::Constant, via: Via::Element },
                    GOp::Bin { dst: 2, form: rl::BinForm::SubVV, a: 0, b: 1 },
                    GOp::AllocElem { dst: 3, src: Identity, mode: Mode::Witness, via: Via::Element },
                ];
                for tail in [
                    vec![GOp::IsZero { a: 2 }],
                    vec![GOp::IsEq { a: 2, b: 3 }, GOp::IsNeq { a: 2, b: 3 }],
                    vec![GOp::EnforceEqual { a: 2, b: 3 }],
                    vec![GOp::CondEnforceEqual { a: 3, b: 2, cond: true }],
                    vec![GOp::Compress { dst: 0, e: 2 }, GOp::ReadValue { a: 2 }],
                    vec![GOp::IsZero { a: 0 }, GOp::IsZero { a: 3 }, GOp::IsEq { a: 0, b: 1 }, GOp::EnforceEqual { a: 0, b: 1 }],
                ] {
                    let mut prog = pre.clone();
                    prog.extend(tail);
                    v.push(Case::Program { prog });
                }
            }
        }
        // decode of every interesting field value; Elligator of 0, +-1; isqrt of 0
        for s in [N::from(0u32), N::from(2u32), N::from(8u32), N::from(1u32), &Q.m - 1u32, N::from(3u32), N::from(4u32)] {
            for mode in [Mode::Witness, Mode::Input] {
                v.push(Case::Program { prog: vec![GOp::AllocFq { dst: 0, val: Num(s.clone()), mode }, GOp::Decompress { dst: 0, f: 0 }] });
                v.push(Case::Program { prog: vec![GOp::AllocFq { dst: 0, val: Num(s.clone()), mode }, GOp::Elligator { dst: 0, f: 0 }, GOp::Compress { dst: 1, e: 0 }] });
                v.push(Case::Program { prog: vec![GOp::AllocFq { dst: 0, val: Num(s.clone()), mode }, GOp::Isqrt { dst: 1, f: 0 }, GOp::Abs { dst: 2, f: 1 }, GOp::IsNegative { f: 1 }, GOp::IsNonnegative { f: 0 }] });
            }
        }
        v
    }
    fn check(&self, case: &Case, ctx: &mut Ctx) -> Result<(), Failure> {
        match case {
            Case::Program { prog } => {
                if prog.iter().any(|o| o.is_codec()) {
                    ctx.nontrivial();
                }
                rl::run_honest(prog, ctx)
            }
            Case::History { src, from_encoding, mode, ops } => history(src, *from_encoding, *mode, ops, ctx),
        }
    }
    fn shrink_candidates(&self, case: &Case) -> Vec<Case> {
        match case {
            Case::Program { prog } => rl::shrink_program(prog).into_iter().map(|p| Case::Program { prog: p }).collect(),
            Case::History { src, from_encoding, mode, ops } => {
                let mut v = Vec::new();
                for i in 0..ops.len() {
                    let mut o = ops.clone();
                    o.remove(i);
                    v.push(Case::History { src: src.clone(), from_encoding: *from_encoding, mode: *mode, ops: o });
                }
                for s in src.shrinks() {
                    v.push(Case::History { src: s, from_encoding: *from_encoding, mode: *mode, ops: ops.clone() });
                }
                v
            }
        }
    }
    fn required_classes(&self, _tier: Tier) -> Vec<String> {
        let mut v: Vec<String> = Vec::new();
        for g in ["Compress", "Decompress", "Elligator", "Negate", "Double", "DoubleInPlace", "IsEq", "IsNeq", "EnforceEqual", "EnforceNotEqual", "CondEnforceEqual", "CondEnforceNotEqual", "CondSelect", "Isqrt", "IsNegative", "IsNonnegative", "Abs", "ToBits", "ToBytes", "ScalarMul:witness-bits", "ScalarMul:const-bits"] {
            v.push(format!("gadget:{g}"));
        }
        for f in rl::BIN_FORMS {
            v.push(format!("gadget:Bin:{f:?}"));
        }
        for f in rl::CONST_FORMS {
            v.push(format!("gadget:BinConst:{f:?}"));
        }
        for m in ["Witness", "Input", "Constant"] {
            v.push(format!("gadget:AllocElem:{m}:Element"));
            v.push(format!("gadget:AllocElem:{m}:Affine"));
        }
        v.push("gadget:AllocElem:Witness:Encoding".into());
        v.push("gadget:AllocElem:Input:Encoding".into());
        v.push("native-fails=>unsat-expected".into());
        for h in ["ForceElement", "ForceEncoding", "Value", "UseInAdd", "UseInEq", "CloneThenForce"] {
            v.push(format!("history:{h}"));
        }
        v
    }
}
