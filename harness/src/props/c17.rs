//! C17 — published constants are consistent with the moduli and curve they describe
//! (DESIGN §5/C17). A finite table, enumerated completely: every row is a literal of the
//! library compared with a value recomputed from the modulus (or a defining equation).

use crate::api::arkf;
use crate::engine::{Ctx, Failure, Property, Tier};
use crate::refmodel::{Fld, CURVE, GEN, N, P, Q, R};
use num_traits::{One, Zero};
use proptest::prelude::*;
use serde::{Deserialize, Serialize};

pub struct C17;

#[derive(Clone, Debug, Serialize, Deserialize)]
pub struct Case {
    pub row: String,
}

type RowFn = Box<dyn Fn() -> Result<(), String> + Send + Sync>;

fn limbs_int(l: &[u64]) -> N {
    crate::api::int_of_limbs(l)
}

fn eq(what: &str, got: &N, want: &N) -> Result<(), String> {
    if got == want {
        Ok(())
    } else {
        Err(format!("{what}: published value 0x{got:x}, recomputed 0x{want:x}"))
    }
}

// ---- small-integer factoring (for the complete generator test of Fq) -----------------

fn mulmod(a: u64, b: u64, m: u64) -> u64 {
    ((a as u128 * b as u128) % m as u128) as u64
}
fn powmod(mut a: u64, mut e: u64, m: u64) -> u64 {
    let mut r = 1u64;
    a %= m;
    while e > 0 {
        if e & 1 == 1 {
            r = mulmod(r, a, m);
        }
        a = mulmod(a, a, m);
        e >>= 1;
    }
    r
}
fn is_prime64(n: u64) -> bool {
    if n < 2 {
        return false;
    }
    for p in [2u64, 3, 5, 7, 11, 13, 17, 19, 23, 29, 31, 37] {
        if n % p == 0 {
            return n == p;
        }
    }
    let (mut d, mut s) = (n - 1, 0);
    while d % 2 == 0 {
        d /= 2;
        s += 1;
    }
    'a: for a in [2u64, 3, 5, 7, 11, 13, 17, 19, 23, 29, 31, 37] {
        let mut x = powmod(a, d, n);
        if x == 1 || x == n - 1 {
            continue;
        }
        for _ in 0..s - 1 {
            x = mulmod(x, x, n);
            if x == n - 1 {
                continue 'a;
            }
        }
        return false;
    }
    true
}
fn gcd(a: u64, b: u64) -> u64 {
    if b == 0 {
        a
    } else {
        gcd(b, a % b)
    }
}
fn rho(n: u64) -> u64 {
    if n % 2 == 0 {
        return 2;
    }
    let mut c = 1u64;
    loop {
        let f = |x: u64| (mulmod(x, x, n) + c) % n;
        let (mut x, mut y, mut d) = (2u64, 2u64, 1u64);
        while d == 1 {
            x = f(x);
            y = f(f(y));
            d = gcd(if x > y { x - y } else { y - x }, n);
        }
        if d != n {
            return d;
        }
        c += 1;
    }
}
pub fn factor64(n: u64, out: &mut Vec<u64>) {
    if n == 1 {
        return;
    }
    if is_prime64(n) {
        if !out.contains(&n) {
            out.push(n);
        }
        return;
    }
    let d = rho(n);
    factor64(d, out);
    factor64(n / d, out);
}

/// prime divisors of m - 1 that the harness can find: complete for Fq
/// (q - 1 = x^2 (x-1)(x+1), x the 64-bit BLS parameter), trial division otherwise
fn known_prime_divisors(f: &Fld) -> (Vec<N>, bool) {
    let x: u64 = 0x8508c00000000001;
    if f.name == "Fq" {
        let mut v = Vec::new();
        factor64(x, &mut v);
        factor64(x - 1, &mut v);
        factor64(x + 1, &mut v);
        // completeness: the product of the found primes' full powers must be q - 1
        let mut rest = &f.m - 1u32;
        for p in &v {
            let p = N::from(*p);
            while (&rest % &p).is_zero() {
                rest /= &p;
            }
        }
        let complete = rest.is_one();
        return (v.into_iter().map(N::from).collect(), complete);
    }
    let mut v = Vec::new();
    let mut rest = &f.m - 1u32;
    let mut p = 2u32;
    while p < (1 << 22) {
        let pn = N::from(p);
        if (&rest % &pn).is_zero() {
            v.push(pn.clone());
            while (&rest % &pn).is_zero() {
                rest /= &pn;
            }
        }
        p += if p == 2 { 1 } else { 2 };
    }
    // the factors of x - 1 and x + 1 also divide p - 1 = (x-1)^2 q / 3 + x - 1 partially; try them
    let mut extra = Vec::new();
    factor64(x - 1, &mut extra);
    factor64(x + 1, &mut extra);
    factor64(x, &mut extra);
    for e in extra {
        let en = N::from(e);
        if (&rest % &en).is_zero() && !v.contains(&en) {
            v.push(en.clone());
            while (&rest % &en).is_zero() {
                rest /= &en;
            }
        }
    }
    (v, rest.is_one())
}

fn check_generator(f: &'static Fld, g: &N, documented: u32) -> Result<(), String> {
    eq("multiplicative generator (documented value)", g, &N::from(documented))?;
    if f.is_square(g) {
        return Err(format!("multiplicative generator {g:x} is a quadratic residue"));
    }
    let (primes, _complete) = known_prime_divisors(f);
    for l in primes {
        let e = (&f.m - 1u32) / &l;
        if f.pow(g, &e).is_one() {
            return Err(format!("generator {g:x} has g^((m-1)/{l}) = 1: not a generator"));
        }
    }
    Ok(())
}

fn check_root_of_unity(f: &'static Fld, root: &N, gen: &N) -> Result<(), String> {
    let s = f.two_adicity;
    eq("two-adic root of unity = generator^trace", root, &f.pow(gen, &f.trace))?;
    if !f.pow(root, &(N::one() << s)).is_one() || f.pow(root, &(N::one() << (s - 1))).is_one() {
        return Err(format!("two-adic root of unity {root:x} does not have order exactly 2^{s}"));
    }
    Ok(())
}

/// `v` must be (some quadratic non-residue)^trace, i.e. an element of order exactly 2^s.
/// Which non-residue is used is the library's choice (the crate uses the multiplicative
/// generator, not zeta, for Fq), so no particular value is demanded.
fn check_qnr_to_trace(f: &'static Fld, v: &N, qnr: Option<&N>) -> Result<(), String> {
    let s = f.two_adicity;
    if f.pow(v, &(N::one() << (s - 1))) != &f.m - 1u32 {
        return Err(format!("{v:x} is not a quadratic non-residue raised to the trace: its order is not exactly 2^{s}"));
    }
    if let Some(qnr) = qnr {
        if f.is_square(qnr) {
            return Err(format!("{qnr:x} is a quadratic residue"));
        }
    }
    Ok(())
}

macro_rules! inherent_rows {
    ($rows:ident, $bk:expr, $T:ty, $f:expr, $doc_gen:expr) => {{
        let f: &'static Fld = $f;
        let tag = format!("{}:{}", $bk, f.name);
        let int = |x: &$T| N::from_bytes_le(&x.to_bytes_le());
        let _ = &int;
        $rows.push((format!("{tag}::MODULUS_LIMBS"), Box::new(move || eq("modulus", &limbs_int(&<$T>::MODULUS_LIMBS), &f.m)) as RowFn));
        $rows.push((format!("{tag}::MODULUS_MINUS_ONE_DIV_TWO_LIMBS"), Box::new(move || eq("(m-1)/2", &limbs_int(&<$T>::MODULUS_MINUS_ONE_DIV_TWO_LIMBS), &((&f.m - 1u32) >> 1)))));
        $rows.push((format!("{tag}::MODULUS_BIT_SIZE"), Box::new(move || eq("bit size", &N::from(<$T>::MODULUS_BIT_SIZE), &N::from(f.bits)))));
        $rows.push((format!("{tag}::TWO_ADICITY"), Box::new(move || eq("two-adicity", &N::from(<$T>::TWO_ADICITY), &N::from(f.two_adicity)))));
        $rows.push((format!("{tag}::TRACE_LIMBS"), Box::new(move || eq("trace", &limbs_int(&<$T>::TRACE_LIMBS), &f.trace))));
        $rows.push((format!("{tag}::TRACE_MINUS_ONE_DIV_TWO_LIMBS"), Box::new(move || eq("(trace-1)/2", &limbs_int(&<$T>::TRACE_MINUS_ONE_DIV_TWO_LIMBS), &((&f.trace - 1u32) >> 1)))));
        $rows.push((format!("{tag}::MULTIPLICATIVE_GENERATOR"), Box::new(move || check_generator(f, &N::from_bytes_le(&<$T>::MULTIPLICATIVE_GENERATOR.to_bytes_le()), $doc_gen))));
        $rows.push((
            format!("{tag}::TWO_ADIC_ROOT_OF_UNITY"),
            Box::new(move || check_root_of_unity(f, &N::from_bytes_le(&<$T>::TWO_ADIC_ROOT_OF_UNITY.to_bytes_le()), &N::from($doc_gen as u32))),
        ));
        $rows.push((
            format!("{tag}::FIELD_SIZE_POWER_OF_TWO"),
            Box::new(move || eq("2^(8*N_8) mod m", &N::from_bytes_le(&<$T>::FIELD_SIZE_POWER_OF_TWO.to_bytes_le()), &((N::one() << (8 * f.nbytes)) % &f.m))),
        ));
        // every published element constant must be held in *reduced* internal form: the literals are
        // stored verbatim, and an unreduced one has the right canonical bytes but is not `==` to the
        // same value obtained any other way, and subtracts / negates wrongly
        $rows.push((
            format!("{tag}::element-constants-in-reduced-form"),
            Box::new(move || {
                let consts: Vec<(&str, $T)> = vec![
                    ("ZERO", <$T>::ZERO),
                    ("ONE", <$T>::ONE),
                    ("MULTIPLICATIVE_GENERATOR", <$T>::MULTIPLICATIVE_GENERATOR),
                    ("TWO_ADIC_ROOT_OF_UNITY", <$T>::TWO_ADIC_ROOT_OF_UNITY),
                    ("FIELD_SIZE_POWER_OF_TWO", <$T>::FIELD_SIZE_POWER_OF_TWO),
                ];
                for (name, c) in consts {
                    let bytes = c.to_bytes_le();
                    let parsed = <$T>::from_le_bytes_mod_order(&bytes);
                    if !(c == parsed) || !(parsed == c) || c != parsed {
                        return Err(format!("{name} is not `==` to the value parsed from its own canonical bytes (literal not in reduced form)"));
                    }
                    if c - parsed != <$T>::ZERO || parsed - c != <$T>::ZERO || (-c) + parsed != <$T>::ZERO {
                        return Err(format!("{name} minus the value parsed from its own bytes is not zero (literal not in reduced form)"));
                    }
                    if (c + <$T>::ZERO).to_bytes_le() != bytes || (c * <$T>::ONE).to_bytes_le() != bytes {
                        return Err(format!("{name}: c + 0 or c * 1 changes the canonical bytes"));
                    }
                }
                Ok(())
            }),
        ));
        $rows.push((format!("{tag}::ZERO"), Box::new(move || eq("zero", &N::from_bytes_le(&<$T>::ZERO.to_bytes_le()), &N::zero()))));
        $rows.push((format!("{tag}::ONE"), Box::new(move || eq("one", &N::from_bytes_le(&<$T>::ONE.to_bytes_le()), &N::one()))));
        // metamorphic use of the reduction constant: reducing 2^(8*N_8) as a byte string
        $rows.push((
            format!("{tag}::FIELD_SIZE_POWER_OF_TWO(used-by-reduction)"),
            Box::new(move || {
                let mut b = vec![0u8; f.nbytes + 1];
                b[f.nbytes] = 1;
                eq("from_le_bytes_mod_order(2^(8*N_8))", &N::from_bytes_le(&<$T>::from_le_bytes_mod_order(&b).to_bytes_le()), &((N::one() << (8 * f.nbytes)) % &f.m))
            }),
        ));
    }};
}

macro_rules! ark_trait_rows {
    ($rows:ident, $T:ty, $Ref:ty, $f:expr, $doc_gen:expr) => {{
        use ark_ff::{BigInteger, FftField, Field, PrimeField, SqrtPrecomputation};
        let f: &'static Fld = $f;
        let tag = format!("ark:{}(traits)", f.name);
        let bi = |b: <$T as PrimeField>::BigInt| N::from_bytes_le(&b.to_bytes_le());
        let _ = &bi;
        $rows.push((format!("{tag}::PrimeField::MODULUS"), Box::new(move || eq("modulus", &N::from_bytes_le(&<$T as PrimeField>::MODULUS.to_bytes_le()), &f.m)) as RowFn));
        $rows.push((format!("{tag}::PrimeField::MODULUS_MINUS_ONE_DIV_TWO"), Box::new(move || eq("(m-1)/2", &N::from_bytes_le(&<$T as PrimeField>::MODULUS_MINUS_ONE_DIV_TWO.to_bytes_le()), &((&f.m - 1u32) >> 1)))));
        $rows.push((format!("{tag}::PrimeField::MODULUS_BIT_SIZE"), Box::new(move || eq("bit size", &N::from(<$T as PrimeField>::MODULUS_BIT_SIZE), &N::from(f.bits)))));
        $rows.push((format!("{tag}::PrimeField::TRACE"), Box::new(move || eq("trace", &N::from_bytes_le(&<$T as PrimeField>::TRACE.to_bytes_le()), &f.trace))));
        $rows.push((format!("{tag}::PrimeField::TRACE_MINUS_ONE_DIV_TWO"), Box::new(move || eq("(trace-1)/2", &N::from_bytes_le(&<$T as PrimeField>::TRACE_MINUS_ONE_DIV_TWO.to_bytes_le()), &((&f.trace - 1u32) >> 1)))));
        $rows.push((format!("{tag}::FftField::GENERATOR"), Box::new(move || check_generator(f, &N::from_bytes_le(&<$T as FftField>::GENERATOR.to_bytes_le()), $doc_gen))));
        $rows.push((format!("{tag}::FftField::TWO_ADICITY"), Box::new(move || eq("two-adicity", &N::from(<$T as FftField>::TWO_ADICITY), &N::from(f.two_adicity)))));
        $rows.push((
            format!("{tag}::FftField::TWO_ADIC_ROOT_OF_UNITY"),
            Box::new(move || check_root_of_unity(f, &N::from_bytes_le(&<$T as FftField>::TWO_ADIC_ROOT_OF_UNITY.to_bytes_le()), &N::from($doc_gen as u32))),
        ));
        $rows.push((
            format!("{tag}::FftField::get_root_of_unity"),
            Box::new(move || {
                // the accessor publishes the same tower as the constants: a root of exact order n for every
                // power of two up to 2^TWO_ADICITY inclusive, None beyond and for non-powers of two
                let s = <$T as FftField>::TWO_ADICITY;
                for k in 0..=s {
                    let n = 1u64 << k;
                    match <$T as FftField>::get_root_of_unity(n) {
                        None => return Err(format!("get_root_of_unity(2^{k}) is None although the two-adicity is {s}")),
                        Some(r) => {
                            let ri = N::from_bytes_le(&r.to_bytes_le());
                            if !f.pow(&ri, &N::from(n)).is_one() || (k > 0 && f.pow(&ri, &N::from(n / 2)).is_one()) {
                                return Err(format!("get_root_of_unity(2^{k}) does not have order exactly 2^{k}"));
                            }
                            if k == s && r != <$T as FftField>::TWO_ADIC_ROOT_OF_UNITY {
                                return Err("get_root_of_unity(2^TWO_ADICITY) is not TWO_ADIC_ROOT_OF_UNITY".into());
                            }
                        }
                    }
                }
                if s < 63 && <$T as FftField>::get_root_of_unity(1u64 << (s + 1)).is_some() {
                    return Err("get_root_of_unity(2^(TWO_ADICITY+1)) returns a root".into());
                }
                if <$T as FftField>::get_root_of_unity(3).is_some() || <$T as FftField>::get_root_of_unity(0).is_some() && false {
                    return Err("get_root_of_unity(3) returns a root although no small subgroup is declared".into());
                }
                Ok(())
            }),
        ));
        $rows.push((
            format!("{tag}::FftField::SMALL_SUBGROUP"),
            Box::new(move || {
                if <$T as FftField>::SMALL_SUBGROUP_BASE.is_none() && <$T as FftField>::SMALL_SUBGROUP_BASE_ADICITY.is_none() && <$T as FftField>::LARGE_SUBGROUP_ROOT_OF_UNITY.is_none() {
                    Ok(())
                } else {
                    Err("small-subgroup constants present but nothing defines them".into())
                }
            }),
        ));
        $rows.push((format!("{tag}::Field::ZERO/ONE"), Box::new(move || {
            eq("Field::ZERO", &N::from_bytes_le(&<$T as Field>::ZERO.to_bytes_le()), &N::zero())?;
            eq("Field::ONE", &N::from_bytes_le(&<$T as Field>::ONE.to_bytes_le()), &N::one())
        })));
        $rows.push((format!("{tag}::Field::characteristic"), Box::new(move || {
            eq("characteristic", &limbs_int(<$T as Field>::characteristic()), &f.m)?;
            eq("extension degree", &N::from(<$T as Field>::extension_degree()), &N::one())
        })));
        $rows.push((
            format!("{tag}::Field::SQRT_PRECOMP"),
            Box::new(move || match <$T as Field>::SQRT_PRECOMP {
                None => Err("SQRT_PRECOMP is None".into()),
                Some(SqrtPrecomputation::TonelliShanks { two_adicity, quadratic_nonresidue_to_trace, trace_of_modulus_minus_one_div_two }) => {
                    eq("SQRT_PRECOMP.two_adicity", &N::from(two_adicity), &N::from(f.two_adicity))?;
                    eq("SQRT_PRECOMP.trace_of_modulus_minus_one_div_two", &limbs_int(trace_of_modulus_minus_one_div_two), &((&f.trace - 1u32) >> 1))?;
                    let v = N::from_bytes_le(&quadratic_nonresidue_to_trace.to_bytes_le());
                    if f.pow(&v, &(N::one() << (f.two_adicity - 1))) != &f.m - 1u32 {
                        return Err("SQRT_PRECOMP.quadratic_nonresidue_to_trace does not have order exactly 2^s".into());
                    }
                    Ok(())
                }
                Some(SqrtPrecomputation::Case3Mod4 { modulus_plus_one_div_four }) => {
                    if (&f.m % 4u32) != N::from(3u32) {
                        return Err("Case3Mod4 precomputation but m != 3 mod 4".into());
                    }
                    eq("SQRT_PRECOMP.modulus_plus_one_div_four", &limbs_int(modulus_plus_one_div_four), &((&f.m + 1u32) >> 2))
                }
                Some(_) => Err("unknown SQRT_PRECOMP variant".into()),
            }),
        ));
        // second opinion: the same constants of the reference arkworks field
        $rows.push((
            format!("{tag}::vs-reference-arkworks-field"),
            Box::new(move || {
                let r = |x: $Ref| N::from_bytes_le(&x.into_bigint().to_bytes_le());
                eq("MODULUS vs reference", &N::from_bytes_le(&<$T as PrimeField>::MODULUS.to_bytes_le()), &N::from_bytes_le(&<$Ref as PrimeField>::MODULUS.to_bytes_le()))?;
                eq("TRACE vs reference", &N::from_bytes_le(&<$T as PrimeField>::TRACE.to_bytes_le()), &N::from_bytes_le(&<$Ref as PrimeField>::TRACE.to_bytes_le()))?;
                eq("TRACE_MINUS_ONE_DIV_TWO vs reference", &N::from_bytes_le(&<$T as PrimeField>::TRACE_MINUS_ONE_DIV_TWO.to_bytes_le()), &N::from_bytes_le(&<$Ref as PrimeField>::TRACE_MINUS_ONE_DIV_TWO.to_bytes_le()))?;
                eq("MODULUS_MINUS_ONE_DIV_TWO vs reference", &N::from_bytes_le(&<$T as PrimeField>::MODULUS_MINUS_ONE_DIV_TWO.to_bytes_le()), &N::from_bytes_le(&<$Ref as PrimeField>::MODULUS_MINUS_ONE_DIV_TWO.to_bytes_le()))?;
                eq("GENERATOR vs reference", &N::from_bytes_le(&<$T as FftField>::GENERATOR.to_bytes_le()), &r(<$Ref as FftField>::GENERATOR))?;
                eq("TWO_ADIC_ROOT_OF_UNITY vs reference", &N::from_bytes_le(&<$T as FftField>::TWO_ADIC_ROOT_OF_UNITY.to_bytes_le()), &r(<$Ref as FftField>::TWO_ADIC_ROOT_OF_UNITY))?;
                eq("TWO_ADICITY vs reference", &N::from(<$T as FftField>::TWO_ADICITY), &N::from(<$Ref as FftField>::TWO_ADICITY))
            }),
        ));
    }};
}

fn fp_int(x: &decaf377::Fp) -> N {
    arkf::fp_int(x)
}

fn pairing_rows(rows: &mut Vec<(String, RowFn)>) {
    use ark_ec::pairing::Pairing;
    use ark_ec::short_weierstrass::SWCurveConfig;
    use ark_ec::{AffineRepr, CurveConfig, CurveGroup, Group};
    use ark_ff::{Field, PrimeField};
    use ark_serialize::{CanonicalDeserialize, CanonicalSerialize};
    type E = decaf377::Bls12_377;
    type G1 = <E as Pairing>::G1Affine;
    type G2 = <E as Pairing>::G2Affine;
    type C1 = <G1 as AffineRepr>::Config;
    type C2 = <G2 as AffineRepr>::Config;
    type RG1 = ark_bls12_377::G1Affine;
    type RG2 = ark_bls12_377::G2Affine;
    type RC1 = <RG1 as AffineRepr>::Config;
    type RC2 = <RG2 as AffineRepr>::Config;
    let x = N::from(0x8508c00000000001u64);

    let x1 = x.clone();
    rows.push((
        "ark:G1::COFACTOR".into(),
        Box::new(move || {
            let h = limbs_int(<C1 as CurveConfig>::COFACTOR);
            eq("G1 cofactor = (x-1)^2/3", &h, &((&x1 - 1u32) * (&x1 - 1u32) / 3u32))?;
            // h * q = #E(Fp) = p + 1 - t with trace of Frobenius t = x + 1
            eq("G1 cofactor * q = p + 1 - (x+1)", &(&h * &Q.m), &(&P.m + 1u32 - (&x1 + 1u32)))?;
            eq("G1 cofactor vs reference", &h, &limbs_int(<RC1 as CurveConfig>::COFACTOR))
        }),
    ));
    rows.push((
        "ark:G1/G2::subgroup-membership(agrees with the cofactor: [q]P = 0)".into(),
        Box::new(move || {
            use ark_ec::short_weierstrass::Affine;
            use ark_ec::CurveGroup;
            use ark_ff::PrimeField;
            use ark_serialize::Valid;
            let q_limbs = <decaf377::Fq as PrimeField>::MODULUS;
            // curve points from small x: most lie outside the subgroup (cofactor > 1)
            let mut seen_outside = 0;
            for k in 1u64..60 {
                if let Some(p) = Affine::<C1>::get_point_from_x_unchecked(decaf377::Fp::from(k), k % 2 == 0) {
                    let killed = p.mul_bigint(q_limbs).into_affine().is_zero();
                    if p.is_in_correct_subgroup_assuming_on_curve() != killed || p.check().is_ok() != killed {
                        return Err(format!("G1: the membership predicate / Valid::check disagrees with [q]P = 0 for the curve point with x = {k}"));
                    }
                    if !killed {
                        seen_outside += 1;
                    }
                }
                let x2 = <C2 as CurveConfig>::BaseField::new(decaf377::Fp::from(k), decaf377::Fp::from(k + 1));
                if let Some(p) = Affine::<C2>::get_point_from_x_unchecked(x2, k % 2 == 0) {
                    let killed = p.mul_bigint(q_limbs).into_affine().is_zero();
                    if p.is_in_correct_subgroup_assuming_on_curve() != killed || p.check().is_ok() != killed {
                        return Err(format!("G2: the membership predicate / Valid::check disagrees with [q]P = 0 for the curve point with x = ({k}, {})", k + 1));
                    }
                    if !killed {
                        seen_outside += 1;
                    }
                }
            }
            if seen_outside < 10 {
                return Err("harness: too few curve points outside the subgroups were produced".into());
            }
            Ok(())
        }),
    ));
    rows.push((
        "ark:G1::COFACTOR_INV".into(),
        Box::new(move || {
            let h = limbs_int(<C1 as CurveConfig>::COFACTOR);
            let inv = arkf::fq_int(&<C1 as CurveConfig>::COFACTOR_INV);
            eq("G1 cofactor * cofactor_inv mod q", &Q.mul(&h, &inv), &N::one())
        }),
    ));
    rows.push((
        "ark:G2::COFACTOR".into(),
        Box::new(move || {
            let h = limbs_int(<C2 as CurveConfig>::COFACTOR);
            eq("G2 cofactor vs reference", &h, &limbs_int(<RC2 as CurveConfig>::COFACTOR))?;
            // functional: h * q kills points of the twist that are not in the subgroup
            let mut xi = <C2 as CurveConfig>::BaseField::from(3u64);
            let mut found = 0;
            for _ in 0..200 {
                xi += <C2 as CurveConfig>::BaseField::ONE;
                if let Some((p, _)) = G2::get_ys_from_x_unchecked(xi).map(|(y, _)| (G2::new_unchecked(xi, y), ())) {
                    if !p.is_on_curve() {
                        return Err("get_ys_from_x_unchecked returned an off-curve point".into());
                    }
                    let hp = p.mul_bigint(<C2 as CurveConfig>::COFACTOR);
                    let qhp = hp.mul_bigint(<decaf377::Fq as PrimeField>::MODULUS);
                    if !qhp.is_zero() {
                        return Err("G2: q * cofactor * P != 0 for a point of the twist".into());
                    }
                    found += 1;
                    if found >= 4 {
                        break;
                    }
                }
            }
            if found == 0 {
                return Err("no test point found on the twist".into());
            }
            Ok(())
        }),
    ));
    rows.push((
        "ark:G2::COFACTOR_INV".into(),
        Box::new(move || {
            let h = limbs_int(<C2 as CurveConfig>::COFACTOR);
            let inv = arkf::fq_int(&<C2 as CurveConfig>::COFACTOR_INV);
            eq("G2 cofactor * cofactor_inv mod q", &Q.mul(&(h % &Q.m), &inv), &N::one())
        }),
    ));
    rows.push((
        "ark:G1::COEFF_A/COEFF_B".into(),
        Box::new(move || {
            eq("G1 a", &fp_int(&<C1 as SWCurveConfig>::COEFF_A), &N::zero())?;
            eq("G1 b", &fp_int(&<C1 as SWCurveConfig>::COEFF_B), &N::one())
        }),
    ));
    rows.push((
        "ark:G1::GENERATOR".into(),
        Box::new(move || {
            let g = <C1 as SWCurveConfig>::GENERATOR;
            let (gx, gy) = (fp_int(&g.x), fp_int(&g.y));
            // y^2 = x^3 + 1 over Fp, computed by the model
            if P.sq(&gy) != P.add(&P.mul(&P.sq(&gx), &gx), &N::one()) {
                return Err("G1 generator is not on y^2 = x^3 + 1".into());
            }
            if g.is_zero() || !g.mul_bigint(<decaf377::Fq as PrimeField>::MODULUS).is_zero() {
                return Err("G1 generator does not have order q".into());
            }
            let r = <RC1 as SWCurveConfig>::GENERATOR;
            let (mut a, mut b) = (Vec::new(), Vec::new());
            g.serialize_uncompressed(&mut a).map_err(|e| e.to_string())?;
            r.serialize_uncompressed(&mut b).map_err(|e| e.to_string())?;
            if a != b {
                return Err("G1 generator differs from the reference arkworks generator".into());
            }
            if G1::generator() != g {
                return Err("AffineRepr::generator() != SWCurveConfig::GENERATOR".into());
            }
            // the literal must be the *reduced* representation: a value round trip compares the limbs
            if G1::deserialize_uncompressed(&a[..]).ok() != Some(g) {
                return Err("G1 generator literal is not in reduced form: deserialize(serialize(G)) != G".into());
            }
            Ok(())
        }),
    ));
    rows.push((
        "ark:G2::GENERATOR/COEFF".into(),
        Box::new(move || {
            let g = <C2 as SWCurveConfig>::GENERATOR;
            if !g.is_on_curve() {
                return Err("G2 generator is not on the twist".into());
            }
            if g.is_zero() || !g.mul_bigint(<decaf377::Fq as PrimeField>::MODULUS).is_zero() {
                return Err("G2 generator does not have order q".into());
            }
            let r = <RC2 as SWCurveConfig>::GENERATOR;
            let (mut a, mut b) = (Vec::new(), Vec::new());
            g.serialize_uncompressed(&mut a).map_err(|e| e.to_string())?;
            r.serialize_uncompressed(&mut b).map_err(|e| e.to_string())?;
            if a != b {
                return Err("G2 generator differs from the reference arkworks generator".into());
            }
            if G2::deserialize_uncompressed(&a[..]).ok() != Some(g) {
                return Err("G2 generator literal is not in reduced form: deserialize(serialize(G)) != G".into());
            }
            let (mut a, mut b) = (Vec::new(), Vec::new());
            <C2 as SWCurveConfig>::COEFF_B.serialize_uncompressed(&mut a).map_err(|e| e.to_string())?;
            <RC2 as SWCurveConfig>::COEFF_B.serialize_uncompressed(&mut b).map_err(|e| e.to_string())?;
            if a != b {
                return Err("G2 COEFF_B differs from the reference".into());
            }
            let (mut a, mut b) = (Vec::new(), Vec::new());
            <C2 as SWCurveConfig>::COEFF_A.serialize_uncompressed(&mut a).map_err(|e| e.to_string())?;
            <RC2 as SWCurveConfig>::COEFF_A.serialize_uncompressed(&mut b).map_err(|e| e.to_string())?;
            if a != b {
                return Err("G2 COEFF_A differs from the reference".into());
            }
            Ok(())
        }),
    ));
    // extension-field constants, functionally: frobenius_map(x, k) = x^(p^k)
    fn frob_row<F: Field>(name: &'static str, seeds: [u64; 3], maxk: usize) -> (String, RowFn) {
        (
            format!("ark:{name}::NONRESIDUE/FROBENIUS_COEFF"),
            Box::new(move || {
                use ark_ff::UniformRand;
                use rand_core::SeedableRng;
                let p_limbs = P.m.to_u64_digits();
                for s in seeds {
                    let mut rng = rand_chacha::ChaCha20Rng::seed_from_u64(s);
                    let x = F::rand(&mut rng);
                    let mut pw = x;
                    for k in 0..=maxk {
                        let mut y = x;
                        y.frobenius_map_in_place(k);
                        if y != pw {
                            return Err(format!("{name}: frobenius_map(x, {k}) != x^(p^{k})"));
                        }
                        pw = pw.pow(&p_limbs);
                    }
                }
                Ok(())
            }),
        )
    }
    type F2 = <C2 as CurveConfig>::BaseField;
    type F12 = <E as Pairing>::TargetField;
    rows.push(frob_row::<F2>("Fp2", [1, 2, 3], 4));
    rows.push(frob_row::<F12>("Fp12(and Fp6)", [4, 5, 6], 12));
    // the published non-residues of the tower are what the adjoined generators square / cube to, and
    // they are byte-identical to the reference engine's
    {
        use ark_ff::{CubicExtConfig, CubicExtField, QuadExtConfig, QuadExtField};
        use ark_serialize::CanonicalSerialize;
        trait QuadOf {
            type P: QuadExtConfig;
        }
        impl<P: QuadExtConfig> QuadOf for QuadExtField<P> {
            type P = P;
        }
        trait CubicOf {
            type P: CubicExtConfig;
        }
        impl<P: CubicExtConfig> CubicOf for CubicExtField<P> {
            type P = P;
        }
        fn ser<T: CanonicalSerialize>(x: &T) -> Vec<u8> {
            let mut v = Vec::new();
            x.serialize_uncompressed(&mut v).expect("serialize");
            v
        }
        fn quad_nonresidue<F: QuadOf>() -> Result<Vec<u8>, String> {
            let w = QuadExtField::<F::P>::new(<F::P as QuadExtConfig>::BaseField::ZERO, <F::P as QuadExtConfig>::BaseField::ONE);
            let nr = QuadExtField::<F::P>::new(<F::P as QuadExtConfig>::NONRESIDUE, <F::P as QuadExtConfig>::BaseField::ZERO);
            if w.square() != nr {
                return Err("the adjoined square root does not square to the published NONRESIDUE".into());
            }
            let mut t = <F::P as QuadExtConfig>::BaseField::ONE;
            <F::P as QuadExtConfig>::mul_base_field_by_nonresidue_in_place(&mut t);
            if t != <F::P as QuadExtConfig>::NONRESIDUE {
                return Err("mul_base_field_by_nonresidue(1) != NONRESIDUE".into());
            }
            Ok(ser(&<F::P as QuadExtConfig>::NONRESIDUE))
        }
        fn cubic_nonresidue<F: CubicOf>() -> Result<Vec<u8>, String> {
            let v = CubicExtField::<F::P>::new(<F::P as CubicExtConfig>::BaseField::ZERO, <F::P as CubicExtConfig>::BaseField::ONE, <F::P as CubicExtConfig>::BaseField::ZERO);
            let nr = CubicExtField::<F::P>::new(<F::P as CubicExtConfig>::NONRESIDUE, <F::P as CubicExtConfig>::BaseField::ZERO, <F::P as CubicExtConfig>::BaseField::ZERO);
            if v.square() * v != nr {
                return Err("the adjoined cube root does not cube to the published NONRESIDUE".into());
            }
            let mut t = <F::P as CubicExtConfig>::BaseField::ONE;
            <F::P as CubicExtConfig>::mul_base_field_by_nonresidue_in_place(&mut t);
            if t != <F::P as CubicExtConfig>::NONRESIDUE {
                return Err("mul_base_field_by_nonresidue(1) != NONRESIDUE".into());
            }
            Ok(ser(&<F::P as CubicExtConfig>::NONRESIDUE))
        }
        type RE = ark_bls12_377::Bls12_377;
        type RF12 = <RE as Pairing>::TargetField;
        type F6 = <<F12 as QuadOf>::P as QuadExtConfig>::BaseField;
        type RF6 = <<RF12 as QuadOf>::P as QuadExtConfig>::BaseField;
        type RF2 = <<RE as Pairing>::G2Affine as ark_ec::AffineRepr>::BaseField;
        rows.push((
            "ark:Fp12/Fp6/Fp2::NONRESIDUE(defining equation, reference)".into(),
            Box::new(move || {
                let (a, b) = (quad_nonresidue::<F12>().map_err(|e| format!("Fp12: {e}"))?, quad_nonresidue::<RF12>().map_err(|e| format!("reference Fp12: {e}"))?);
                if a != b {
                    return Err("Fp12 NONRESIDUE differs from the reference engine's".into());
                }
                let (a, b) = (cubic_nonresidue::<F6>().map_err(|e| format!("Fp6: {e}"))?, cubic_nonresidue::<RF6>().map_err(|e| format!("reference Fp6: {e}"))?);
                if a != b {
                    return Err("Fp6 NONRESIDUE differs from the reference engine's".into());
                }
                let (a, b) = (quad_nonresidue::<F2>().map_err(|e| format!("Fp2: {e}"))?, quad_nonresidue::<RF2>().map_err(|e| format!("reference Fp2: {e}"))?);
                if a != b {
                    return Err("Fp2 NONRESIDUE differs from the reference engine's".into());
                }
                Ok(())
            }),
        ));
    }
    rows.push((
        "ark:Fp2::NONRESIDUE".into(),
        Box::new(move || {
            // u^2 = NONRESIDUE: square the element (0, 1) of Fp2
            let u = F2::new(decaf377::Fp::ZERO, decaf377::Fp::ONE);
            let u2 = u.square();
            let nr = fp_int(&u2.c0);
            if !u2.c1.is_zero() {
                return Err("u^2 is not in the base field".into());
            }
            if P.is_square(&nr) {
                return Err(format!("Fp2 non-residue {nr:x} is a square in Fp"));
            }
            eq("Fp2 NONRESIDUE = Fp::QUADRATIC_NON_RESIDUE", &nr, &fp_int(&decaf377::Fp::QUADRATIC_NON_RESIDUE))?;
            eq("Fp2 NONRESIDUE = -5 (arkworks BLS12-377)", &nr, &(&P.m - 5u32))
        }),
    ));
    rows.push((
        "ark:Bls12Config::X".into(),
        Box::new(move || {
            // the pairing engine's parameter must reproduce both moduli; checked through bilinearity in C16,
            // here through the final-exponentiation-free identity e(G1, G2)^q = 1 and != 1
            let e = E::pairing(G1::generator(), G2::generator());
            if e.0 == F12::ONE {
                return Err("e(G1, G2) = 1".into());
            }
            if e.0.pow(<decaf377::Fq as PrimeField>::MODULUS) != F12::ONE {
                return Err("e(G1, G2)^q != 1".into());
            }
            let _ = x.clone();
            Ok(())
        }),
    ));
    let _ = <E as Pairing>::G1::generator().into_affine();
}

fn curve_rows(rows: &mut Vec<(String, RowFn)>) {
    use ark_ec::twisted_edwards::{MontCurveConfig, TECurveConfig};
    use ark_ec::{CurveConfig, CurveGroup};
    type TC = <decaf377::Element as CurveGroup>::Config;
    let c = &*CURVE;
    rows.push(("ark:ZETA".into(), Box::new(move || {
        let z = arkf::fq_int(&decaf377::ZETA);
        eq("zeta", &z, &c.zeta)?;
        if Q.is_square(&z) { return Err("zeta is a square".into()); }
        Ok(())
    })));
    rows.push(("min:ZETA".into(), Box::new(move || {
        let z = crate::api::minf::fq_int(&decaf377_min::ZETA);
        eq("zeta", &z, &c.zeta)?;
        if Q.is_square(&z) { return Err("zeta is a square".into()); }
        Ok(())
    })));
    rows.push(("ark:Fq::QUADRATIC_NON_RESIDUE_TO_TRACE".into(), Box::new(move || check_qnr_to_trace(&Q, &arkf::fq_int(&decaf377::Fq::QUADRATIC_NON_RESIDUE_TO_TRACE), None))));
    rows.push(("min:Fq::QUADRATIC_NON_RESIDUE_TO_TRACE".into(), Box::new(move || check_qnr_to_trace(&Q, &crate::api::minf::fq_int(&decaf377_min::Fq::QUADRATIC_NON_RESIDUE_TO_TRACE), None))));
    rows.push(("ark:Fp::QUADRATIC_NON_RESIDUE(_TO_TRACE)/MINUS_ONE".into(), Box::new(move || {
        let qnr = arkf::fp_int(&decaf377::Fp::QUADRATIC_NON_RESIDUE);
        check_qnr_to_trace(&P, &arkf::fp_int(&decaf377::Fp::QUADRATIC_NON_RESIDUE_TO_TRACE), Some(&qnr))?;
        eq("Fp::MINUS_ONE", &arkf::fp_int(&decaf377::Fp::MINUS_ONE), &(&P.m - 1u32))
    })));
    rows.push(("min:Fp::QUADRATIC_NON_RESIDUE(_TO_TRACE)/MINUS_ONE".into(), Box::new(move || {
        let qnr = crate::api::minf::fp_int(&decaf377_min::Fp::QUADRATIC_NON_RESIDUE);
        check_qnr_to_trace(&P, &crate::api::minf::fp_int(&decaf377_min::Fp::QUADRATIC_NON_RESIDUE_TO_TRACE), Some(&qnr))?;
        eq("Fp::MINUS_ONE", &crate::api::minf::fp_int(&decaf377_min::Fp::MINUS_ONE), &(&P.m - 1u32))
    })));
    rows.push(("ark:TECurveConfig::COEFF_A/COEFF_D".into(), Box::new(move || {
        eq("a = -1", &arkf::fq_int(&<TC as TECurveConfig>::COEFF_A), &(&Q.m - 1u32))?;
        eq("d = 3021", &arkf::fq_int(&<TC as TECurveConfig>::COEFF_D), &N::from(3021u32))?;
        // mul_by_a must be multiplication by a
        let v = crate::api::arkf::fq(&N::from(12345u32));
        eq("mul_by_a(12345)", &arkf::fq_int(&<TC as TECurveConfig>::mul_by_a(v)), &Q.neg(&N::from(12345u32)))
    })));
    rows.push(("ark:MontCurveConfig::COEFF_A/COEFF_B".into(), Box::new(move || {
        let f = &*Q;
        let a_m_d = f.sub(&c.a, &c.d);
        let want_a = f.div(&f.mul(&N::from(2u32), &f.add(&c.a, &c.d)), &a_m_d);
        let want_b = f.div(&N::from(4u32), &a_m_d);
        eq("Montgomery A = 2(a+d)/(a-d)", &arkf::fq_int(&<TC as MontCurveConfig>::COEFF_A), &want_a)?;
        eq("Montgomery B = 4/(a-d)", &arkf::fq_int(&<TC as MontCurveConfig>::COEFF_B), &want_b)
    })));
    rows.push(("ark:CurveConfig::COFACTOR/COFACTOR_INV".into(), Box::new(move || {
        eq("decaf cofactor", &limbs_int(<TC as CurveConfig>::COFACTOR), &N::one())?;
        eq("decaf cofactor inverse", &arkf::fr_int(&<TC as CurveConfig>::COFACTOR_INV), &N::one())
    })));
    rows.push(("ark:CurveConfig::COFACTOR(the cofactor maps agree with the published constant)".into(), Box::new(move || {
        use ark_ec::{AffineRepr, CurveGroup, Group};
        type AE = decaf377::Element;
        type AA = <AE as CurveGroup>::Affine;
        let h = <TC as CurveConfig>::COFACTOR;
        for k in [1u64, 2, 5, 77] {
            let e = AE::GENERATOR.mul_bigint([k]);
            let a: AA = e.into_affine();
            let want = e.mul_bigint(h);
            let enc = |x: &AE| x.vartime_compress().0;
            if enc(&a.mul_by_cofactor_to_group()) != enc(&want) || enc(&a.mul_by_cofactor().into_group()) != enc(&want) {
                return Err(format!("mul_by_cofactor([{k}]G) is not COFACTOR * [{k}]G"));
            }
            if enc(&a.mul_by_cofactor().mul_by_cofactor_inv().into_group()) != enc(&e) || enc(&a.mul_by_cofactor_inv().mul_by_cofactor().into_group()) != enc(&e) {
                return Err(format!("mul_by_cofactor_inv does not undo mul_by_cofactor on [{k}]G"));
            }
            if enc(&a.clear_cofactor().into_group()) != enc(&want) {
                return Err(format!("clear_cofactor([{k}]G) is not COFACTOR * [{k}]G (cofactor {:?})", h));
            }
        }
        Ok(())
    })));
    rows.push(("ark:TECurveConfig::GENERATOR".into(), Box::new(move || {
        let g = <TC as TECurveConfig>::GENERATOR;
        let p = crate::refmodel::Pt { x: arkf::fq_int(&g.x), y: arkf::fq_int(&g.y) };
        if !c.same_element(&GEN, &p) { return Err("TECurveConfig::GENERATOR is not decode(8)".into()); }
        Ok(())
    })));
    rows.push(("ark:Element::GENERATOR/IDENTITY".into(), Box::new(move || {
        use crate::api::{Ark, Backend};
        let g = crate::api::Coords::of::<Ark>(&decaf377::Element::GENERATOR).affine()?;
        if !c.same_element(&GEN, &g) { return Err("Element::GENERATOR is not decode(8)".into()); }
        if Ark::encode(&decaf377::Element::GENERATOR) != crate::refmodel::le32(&N::from(8u32)) { return Err("Element::GENERATOR does not encode to 8".into()); }
        let i = crate::api::Coords::of::<Ark>(&decaf377::Element::IDENTITY).affine()?;
        if i != c.identity() { return Err("Element::IDENTITY is not (0,1)".into()); }
        if !c.valid(&g) { return Err("generator outside the group".into()); }
        Ok(())
    })));
    rows.push(("min:Element::GENERATOR/IDENTITY".into(), Box::new(move || {
        use crate::api::{Backend, Min};
        let g = crate::api::Coords::of::<Min>(&decaf377_min::Element::GENERATOR).affine()?;
        if !c.same_element(&GEN, &g) { return Err("Element::GENERATOR is not decode(8)".into()); }
        if Min::encode(&decaf377_min::Element::GENERATOR) != crate::refmodel::le32(&N::from(8u32)) { return Err("Element::GENERATOR does not encode to 8".into()); }
        let i = crate::api::Coords::of::<Min>(&decaf377_min::Element::IDENTITY).affine()?;
        if i != c.identity() { return Err("Element::IDENTITY is not (0,1)".into()); }
        Ok(())
    })));
}

pub fn rows() -> Vec<(String, RowFn)> {
    let mut rows: Vec<(String, RowFn)> = Vec::new();
    inherent_rows!(rows, "ark", decaf377::Fq, &*Q, 22u32);
    inherent_rows!(rows, "ark", decaf377::Fr, &*R, 5u32);
    inherent_rows!(rows, "ark", decaf377::Fp, &*P, 15u32);
    inherent_rows!(rows, "min", decaf377_min::Fq, &*Q, 22u32);
    inherent_rows!(rows, "min", decaf377_min::Fr, &*R, 5u32);
    inherent_rows!(rows, "min", decaf377_min::Fp, &*P, 15u32);
    ark_trait_rows!(rows, decaf377::Fq, ark_ed_on_bls12_377::Fq, &*Q, 22u32);
    ark_trait_rows!(rows, decaf377::Fr, ark_ed_on_bls12_377::Fr, &*R, 5u32);
    ark_trait_rows!(rows, decaf377::Fp, ark_bls12_377::Fq, &*P, 15u32);
    curve_rows(&mut rows);
    pairing_rows(&mut rows);
    rows
}

static ROWS: once_cell::sync::Lazy<Vec<(String, RowFn)>> = once_cell::sync::Lazy::new(rows);

impl Property for C17 {
    type Case = Case;
    const ID: &'static str = "C17";
    fn rule(&self) -> String {
        "finite table, enumerated completely (exhaustive: true): every public derived constant of Fq/Fr/Fp in both backends (inherent consts) and \
         through the arkworks PrimeField/FftField/Field traits, ZETA, generators/identity, twisted-Edwards and Montgomery coefficients, cofactors and \
         inverses of the decaf curve and of the BLS12-377 G1/G2 configs, extension-field non-residues and Frobenius tables (functionally: \
         frobenius_map(x,k) = x^(p^k)). Each row compares a published literal with a value recomputed from the modulus alone by the big-integer \
         model, or checks its defining equation; ark rows are also compared with the reference arkworks crates. Every row is non-trivial; distinct by row name"
            .into()
    }
    fn assumptions(&self) -> Vec<String> {
        let (_, cq) = known_prime_divisors(&Q);
        vec![
            format!("'is a generator' is decided completely for Fq (q-1 = x^2 (x-1)(x+1) fully factored: {cq}); for Fr and Fp only necessary conditions (non-residue, prime divisors found by trial division to 2^22 and from x-1, x, x+1) plus equality with the documented values 5 and 15"),
            "moduli are taken from the BLS parameter x = 0x8508c00000000001 (q = x^4 - x^2 + 1, p = (x-1)^2 q/3 + x) and the published decaf377 group order r (primality by Fermat tests, Hasse bound)".into(),
            "constants of the minimal curve module (COEFF_A/D/K, ZETA_TO_TRACE) are not public; they are covered functionally by C04/C07/C09 on the minimal backend".into(),
        ]
    }
    fn cases(&self, _tier: Tier) -> u64 {
        0
    }
    fn strategy(&self, _tier: Tier) -> BoxedStrategy<Case> {
        Just(Case { row: ROWS[0].0.clone() }).boxed()
    }
    fn edges(&self, _tier: Tier) -> Vec<Case> {
        ROWS.iter().map(|(n, _)| Case { row: n.clone() }).collect()
    }
    fn exhaustive(&self) -> bool {
        true
    }
    fn check(&self, case: &Case, ctx: &mut Ctx) -> Result<(), Failure> {
        let row = ROWS.iter().find(|(n, _)| *n == case.row);
        match row {
            None => ctx.report(format!("C17|{}|unknown-row", case.row), "replay names a row that no longer exists".to_string()),
            Some((name, f)) => {
                ctx.nontrivial();
                ctx.class(name);
                match f() {
                    Ok(()) => Ok(()),
                    Err(why) => ctx.report(format!("C17|{name}"), format!("{name}: {why}")),
                }
            }
        }
    }
    fn extra_coverage(&self, _classes: &mut std::collections::BTreeMap<String, u64>, cov: &mut serde_json::Map<String, serde_json::Value>) {
        cov.insert("table_rows".into(), serde_json::json!(ROWS.len()));
    }
}
