//! Generic driver: deterministic parallel proptest runners, corpus + edge lists first,
//! shrinking (proptest, then a structural minimiser), replay files, known findings,
//! evidence. See DESIGN.md §2.

use proptest::strategy::{BoxedStrategy, Strategy};
use proptest::test_runner::{Config, RngAlgorithm, RngSeed, TestCaseError, TestError, TestRunner};
use serde::de::DeserializeOwned;
use serde::Serialize;
use serde_json::{json, Map, Value};
use std::cell::{Cell, RefCell};
use std::collections::{BTreeMap, HashSet};
use std::fmt::Debug;
use std::hash::{Hash, Hasher};
use std::panic::{catch_unwind, AssertUnwindSafe};
use std::path::{Path, PathBuf};
use std::sync::atomic::{AtomicBool, Ordering};
use std::time::Instant;

#[derive(Clone, Copy, Debug, PartialEq, Eq)]
pub enum Tier {
    Quick,
    Thorough,
}
impl Tier {
    pub fn name(self) -> &'static str {
        match self {
            Tier::Quick => "quick",
            Tier::Thorough => "thorough",
        }
    }
    /// pick the budget for this tier
    pub fn pick(self, quick: u64, thorough: u64) -> u64 {
        match self {
            Tier::Quick => quick,
            Tier::Thorough => thorough,
        }
    }
}

#[derive(Clone, Debug)]
pub struct Failure {
    /// stable identification of *what* failed (used for known findings and minimisation)
    pub signature: String,
    pub message: String,
}

/// Per-case context handed to `Property::check`.
pub struct Ctx<'a> {
    known: &'a KnownFindings,
    property: &'static str,
    pub classes: BTreeMap<String, u64>,
    pub nontrivial: bool,
    pub excluded: u64,
    pub known_hits: BTreeMap<String, u64>,
    /// strict = replay mode for a listed finding: still reported as KNOWN-FINDING
    pub sub_evaluations: u64,
}

impl<'a> Ctx<'a> {
    fn new(known: &'a KnownFindings, property: &'static str) -> Self {
        Ctx {
            known,
            property,
            classes: BTreeMap::new(),
            nontrivial: false,
            excluded: 0,
            known_hits: BTreeMap::new(),
            sub_evaluations: 0,
        }
    }
    /// context for oracles called outside the engine (libFuzzer targets)
    pub fn for_fuzzing(known: &'a KnownFindings, property: &'static str) -> Ctx<'a> {
        Ctx::new(known, property)
    }
    /// a throw-away context (same known findings) for running another property's oracle
    /// whose verdicts the caller wants to ignore
    pub fn scratch(&self) -> Ctx<'a> {
        Ctx::new(self.known, self.property)
    }
    pub fn class(&mut self, name: &str) {
        *self.classes.entry(name.to_string()).or_insert(0) += 1;
    }
    pub fn class_n(&mut self, name: &str, k: u64) {
        *self.classes.entry(name.to_string()).or_insert(0) += k;
    }
    pub fn nontrivial(&mut self) {
        self.nontrivial = true;
    }
    pub fn excluded(&mut self) {
        self.excluded += 1;
    }
    pub fn sub_eval(&mut self) {
        self.sub_evaluations += 1;
    }
    /// Report a failed sub-check. A listed known finding is counted and tolerated
    /// (so that the search continues behind it); anything else aborts the case.
    pub fn report(&mut self, signature: impl Into<String>, message: impl Into<String>) -> Result<(), Failure> {
        let signature = signature.into();
        if self.known.is_known(self.property, &signature) {
            *self.known_hits.entry(signature).or_insert(0) += 1;
            Ok(())
        } else {
            Err(Failure { signature, message: message.into() })
        }
    }
}

/// Convenience: build a failure and route it through `Ctx::report`.
#[macro_export]
macro_rules! ensure {
    ($ctx:expr, $cond:expr, $sig:expr, $($fmt:tt)+) => {
        if !($cond) {
            $ctx.report($sig, format!($($fmt)+))?;
        }
    };
}

pub trait Property: Sync + Send + 'static {
    type Case: Clone + Debug + Serialize + DeserializeOwned + Send + Sync + 'static;
    const ID: &'static str;
    const LEVEL: &'static str = "exploration";
    /// how cases are generated and what makes one non-trivial / distinct
    fn rule(&self) -> String;
    fn assumptions(&self) -> Vec<String> {
        vec![]
    }
    /// number of generated cases for the tier (fixed work, never a time quota)
    fn cases(&self, tier: Tier) -> u64;
    fn strategy(&self, tier: Tier) -> BoxedStrategy<Self::Case>;
    /// deterministic, seed-independent edge list, run before the generated cases
    fn edges(&self, _tier: Tier) -> Vec<Self::Case> {
        vec![]
    }
    fn check(&self, case: &Self::Case, ctx: &mut Ctx) -> Result<(), Failure>;
    /// structurally smaller variants of a failing case (children instead of a node,
    /// an instruction dropped, ...); used after proptest's own shrinking
    fn shrink_candidates(&self, _case: &Self::Case) -> Vec<Self::Case> {
        vec![]
    }
    /// classes that must have been exercised at least once; a zero count is a harness
    /// error (exit 2), never a violation
    fn required_classes(&self, _tier: Tier) -> Vec<String> {
        vec![]
    }
    fn max_shrink_iters(&self) -> u32 {
        2048
    }
    fn exhaustive(&self) -> bool {
        false
    }
    /// one-off work before anything else (e.g. loading keys); errors are exit 2
    fn prepare(&self, _tier: Tier) -> Result<(), String> {
        Ok(())
    }
    /// extra coverage keys computed from the merged class histogram
    fn extra_coverage(&self, _classes: &mut BTreeMap<String, u64>, _cov: &mut Map<String, Value>) {}
}

// ---------------------------------------------------------------------------------------
// known findings
// ---------------------------------------------------------------------------------------

#[derive(Default)]
pub struct KnownFindings {
    /// (property, signature) -> what
    known: BTreeMap<(String, String), String>,
}

impl KnownFindings {
    pub fn load(verif_dir: &Path) -> Result<Self, String> {
        let p = verif_dir.join("known_findings.json");
        let mut k = KnownFindings::default();
        let text = match std::fs::read_to_string(&p) {
            Ok(t) => t,
            Err(_) => return Ok(k),
        };
        let v: Value = serde_json::from_str(&text).map_err(|e| format!("known_findings.json: {e}"))?;
        for e in v.get("findings").and_then(|f| f.as_array()).cloned().unwrap_or_default() {
            let status = e.get("status").and_then(|s| s.as_str()).unwrap_or("");
            if status != "known" {
                continue; // "fixed" entries suppress nothing
            }
            let prop = e.get("property").and_then(|s| s.as_str()).unwrap_or("").to_string();
            let sig = e.get("signature").and_then(|s| s.as_str()).unwrap_or("").to_string();
            let what = e.get("what").and_then(|s| s.as_str()).unwrap_or("").to_string();
            k.known.insert((prop, sig), what);
        }
        Ok(k)
    }
    pub fn is_known(&self, property: &str, signature: &str) -> bool {
        self.known.contains_key(&(property.to_string(), signature.to_string()))
    }
    pub fn what(&self, property: &str, signature: &str) -> String {
        self.known.get(&(property.to_string(), signature.to_string())).cloned().unwrap_or_default()
    }
}

// ---------------------------------------------------------------------------------------
// evaluation of one case
// ---------------------------------------------------------------------------------------

struct Outcome {
    result: Result<(), Failure>,
    classes: BTreeMap<String, u64>,
    nontrivial: bool,
    excluded: u64,
    known_hits: BTreeMap<String, u64>,
    sub_evaluations: u64,
}

fn panic_message(p: Box<dyn std::any::Any + Send>) -> String {
    if let Some(s) = p.downcast_ref::<&str>() {
        s.to_string()
    } else if let Some(s) = p.downcast_ref::<String>() {
        s.clone()
    } else {
        "non-string panic payload".to_string()
    }
}

fn evaluate<P: Property>(prop: &P, case: &P::Case, known: &KnownFindings) -> Outcome {
    let mut ctx = Ctx::new(known, P::ID);
    let r = catch_unwind(AssertUnwindSafe(|| prop.check(case, &mut ctx)));
    let result = match r {
        Ok(r) => r,
        Err(p) => {
            let msg = panic_message(p);
            let short: String = msg.chars().take(96).collect();
            // a panic may itself be a listed finding
            ctx.report(format!("panic|{short}"), format!("panic inside the check or the library: {msg}"))
        }
    };
    Outcome {
        result,
        classes: ctx.classes,
        nontrivial: ctx.nontrivial,
        excluded: ctx.excluded,
        known_hits: ctx.known_hits,
        sub_evaluations: ctx.sub_evaluations,
    }
}

fn digest128<T: Serialize>(case: &T) -> u128 {
    let s = serde_json::to_string(case).unwrap_or_default();
    let mut h1 = std::collections::hash_map::DefaultHasher::new();
    0x5eed_0001u64.hash(&mut h1);
    s.hash(&mut h1);
    let mut h2 = std::collections::hash_map::DefaultHasher::new();
    0x5eed_0002u64.hash(&mut h2);
    s.hash(&mut h2);
    ((h1.finish() as u128) << 64) | h2.finish() as u128
}

#[derive(Default)]
struct Tally {
    evaluations: u64,
    sub_evaluations: u64,
    nontrivial: HashSet<u128>,
    classes: BTreeMap<String, u64>,
    excluded: u64,
    known_hits: BTreeMap<String, u64>,
    samples: Vec<Value>,
}

impl Tally {
    fn record<C: Serialize>(&mut self, case: &C, o: &Outcome, max_samples: usize) {
        self.evaluations += 1;
        self.sub_evaluations += o.sub_evaluations;
        self.excluded += o.excluded;
        for (k, v) in &o.classes {
            *self.classes.entry(k.clone()).or_insert(0) += v;
        }
        for (k, v) in &o.known_hits {
            *self.known_hits.entry(k.clone()).or_insert(0) += v;
        }
        if o.nontrivial {
            let fresh = self.nontrivial.insert(digest128(case));
            if fresh && self.samples.len() < max_samples {
                if let Ok(v) = serde_json::to_value(case) {
                    self.samples.push(v);
                }
            }
        }
    }
    fn merge(&mut self, other: Tally, max_samples: usize) {
        self.evaluations += other.evaluations;
        self.sub_evaluations += other.sub_evaluations;
        self.excluded += other.excluded;
        self.nontrivial.extend(other.nontrivial);
        for (k, v) in other.classes {
            *self.classes.entry(k).or_insert(0) += v;
        }
        for (k, v) in other.known_hits {
            *self.known_hits.entry(k).or_insert(0) += v;
        }
        for s in other.samples {
            if self.samples.len() < max_samples {
                self.samples.push(s);
            }
        }
    }
}

// ---------------------------------------------------------------------------------------
// running
// ---------------------------------------------------------------------------------------

pub struct Env {
    pub verif_dir: PathBuf,
    /// where evidence/ and replays/ are written (differs from verif_dir when a scratch tree is checked)
    pub out_dir: PathBuf,
    pub seed: u64,
    pub jobs: usize,
}

impl Env {
    pub fn from_env() -> Env {
        let verif_dir = PathBuf::from(std::env::var("VERIF_DIR").unwrap_or_else(|_| "/verif".into()));
        let seed = std::env::var("VERIF_SEED").ok().and_then(|s| s.trim().parse::<i128>().ok()).unwrap_or(0);
        let jobs = std::env::var("VERIF_JOBS").ok().and_then(|s| s.parse().ok()).unwrap_or(16usize).max(1);
        let out_dir = std::env::var("VERIF_OUT_DIR").map(PathBuf::from).unwrap_or_else(|_| verif_dir.clone());
        Env { verif_dir, out_dir, seed: seed as u64, jobs }
    }
}

fn mix(seed: u64, id: &str, worker: u64) -> u64 {
    let mut h = std::collections::hash_map::DefaultHasher::new();
    seed.hash(&mut h);
    id.hash(&mut h);
    worker.hash(&mut h);
    h.finish()
}

fn seed_bytes(s: u64) -> [u8; 32] {
    let mut out = [0u8; 32];
    for i in 0..4 {
        let mut h = std::collections::hash_map::DefaultHasher::new();
        s.hash(&mut h);
        (i as u64).hash(&mut h);
        out[8 * i..8 * i + 8].copy_from_slice(&h.finish().to_le_bytes());
    }
    out
}

struct Found<C> {
    case: C,
    failure: Failure,
    origin: String,
}

fn minimise<P: Property>(prop: &P, mut case: P::Case, mut failure: Failure, known: &KnownFindings) -> (P::Case, Failure) {
    // greedy structural descent while the same signature still fails
    let mut budget = 4000u32;
    'outer: loop {
        for cand in prop.shrink_candidates(&case) {
            if budget == 0 {
                break 'outer;
            }
            budget -= 1;
            let o = evaluate(prop, &cand, known);
            if let Err(f) = o.result {
                if f.signature == failure.signature {
                    case = cand;
                    failure = f;
                    continue 'outer;
                }
            }
        }
        break;
    }
    (case, failure)
}

fn write_replay<P: Property>(env: &Env, tier: Tier, found: &Found<P::Case>) -> PathBuf {
    let v = json!({
        "property": P::ID,
        "signature": found.failure.signature,
        "message": found.failure.message,
        "origin": found.origin,
        "seed": env.seed,
        "tier": tier.name(),
        "case": serde_json::to_value(&found.case).unwrap_or(Value::Null),
    });
    let text = serde_json::to_string_pretty(&v).unwrap();
    let mut h = std::collections::hash_map::DefaultHasher::new();
    text.hash(&mut h);
    let dir = env.out_dir.join("replays");
    let _ = std::fs::create_dir_all(&dir);
    let path = dir.join(format!("{}-{:016x}.json", P::ID, h.finish()));
    let _ = std::fs::write(&path, text);
    path
}

fn load_case_file<C: DeserializeOwned>(path: &Path) -> Result<C, String> {
    let text = std::fs::read_to_string(path).map_err(|e| format!("{}: {e}", path.display()))?;
    let v: Value = serde_json::from_str(&text).map_err(|e| format!("{}: {e}", path.display()))?;
    let case = v.get("case").cloned().unwrap_or(v);
    serde_json::from_value(case).map_err(|e| format!("{}: {e}", path.display()))
}

/// Parallel map over a fixed list, results in list order.
fn par_eval<P: Property>(
    prop: &P,
    cases: &[(String, P::Case)],
    known: &KnownFindings,
    jobs: usize,
) -> (Tally, Option<Found<P::Case>>) {
    let n = cases.len();
    if n == 0 {
        return (Tally::default(), None);
    }
    let jobs = jobs.min(n).max(1);
    let chunk = (n + jobs - 1) / jobs;
    let mut results: Vec<(Tally, Option<(usize, Failure)>)> = Vec::new();
    std::thread::scope(|s| {
        let mut hs = Vec::new();
        for (ci, part) in cases.chunks(chunk).enumerate() {
            hs.push(s.spawn(move || {
                let mut t = Tally::default();
                let mut first: Option<(usize, Failure)> = None;
                for (i, (_origin, case)) in part.iter().enumerate() {
                    let o = evaluate(prop, case, known);
                    if first.is_none() {
                        t.record(case, &o, 3);
                    }
                    if let Err(f) = o.result {
                        if first.is_none() {
                            first = Some((ci * chunk + i, f));
                        }
                    }
                }
                (t, first)
            }));
        }
        for h in hs {
            results.push(h.join().expect("edge worker panicked outside catch_unwind"));
        }
    });
    let mut tally = Tally::default();
    let mut found: Option<Found<P::Case>> = None;
    for (t, f) in results {
        tally.merge(t, 6);
        if found.is_none() {
            if let Some((idx, failure)) = f {
                found = Some(Found { case: cases[idx].1.clone(), failure, origin: cases[idx].0.clone() });
            }
        }
    }
    (tally, found)
}

pub fn run_property<P: Property>(prop: &P, tier: Tier, env: &Env) -> i32 {
    let t0 = Instant::now();
    std::panic::set_hook(Box::new(|_| {}));
    let known = match KnownFindings::load(&env.verif_dir) {
        Ok(k) => k,
        Err(e) => {
            eprintln!("harness error: {e}");
            return 2;
        }
    };
    if let Err(e) = prop.prepare(tier) {
        eprintln!("harness error: prepare failed: {e}");
        return 2;
    }

    let mut tally = Tally::default();
    let mut found: Option<Found<P::Case>> = None;
    let mut corpus_cases = 0u64;
    let mut edge_cases = 0u64;

    // (1) regression corpus
    let corpus_dir = env.verif_dir.join("corpus").join(P::ID);
    let mut corpus: Vec<(String, P::Case)> = Vec::new();
    if let Ok(rd) = std::fs::read_dir(&corpus_dir) {
        let mut files: Vec<PathBuf> = rd.filter_map(|e| e.ok().map(|e| e.path())).filter(|p| p.extension().map(|e| e == "json").unwrap_or(false)).collect();
        files.sort();
        for f in files {
            match load_case_file::<P::Case>(&f) {
                Ok(c) => corpus.push((format!("corpus:{}", f.display()), c)),
                Err(e) => {
                    eprintln!("harness error: cannot load corpus case: {e}");
                    return 2;
                }
            }
        }
    }
    if !corpus.is_empty() {
        corpus_cases = corpus.len() as u64;
        let (t, f) = par_eval(prop, &corpus, &known, env.jobs);
        tally.merge(t, 6);
        found = f;
    }

    // (2) deterministic edge list
    if found.is_none() {
        let edges: Vec<(String, P::Case)> = prop.edges(tier).into_iter().enumerate().map(|(i, c)| (format!("edge:{i}"), c)).collect();
        edge_cases = edges.len() as u64;
        let (t, f) = par_eval(prop, &edges, &known, env.jobs);
        tally.merge(t, 6);
        found = f;
    }

    // (3) generated cases
    let total = prop.cases(tier);
    let mut generated = 0u64;
    if found.is_none() && total > 0 {
        let jobs = env.jobs as u64;
        let stop = AtomicBool::new(false);
        let mut results: Vec<(Tally, Option<Found<P::Case>>)> = Vec::new();
        std::thread::scope(|s| {
            let mut hs = Vec::new();
            for w in 0..jobs {
                let share = total / jobs + if w < total % jobs { 1 } else { 0 };
                if share == 0 {
                    continue;
                }
                let stop = &stop;
                let known = &known;
                hs.push(s.spawn(move || {
                    let cfg = Config {
                        cases: share as u32,
                        failure_persistence: None,
                        max_shrink_iters: prop.max_shrink_iters(),
                        max_global_rejects: 1 << 20,
                        rng_seed: RngSeed::Fixed(mix(env.seed, P::ID, w)),
                        ..Config::default()
                    };
                    let rng = proptest::test_runner::TestRng::from_seed(RngAlgorithm::ChaCha, &seed_bytes(mix(env.seed, P::ID, w)));
                    let mut runner = TestRunner::new_with_rng(cfg, rng);
                    let tally = RefCell::new(Tally::default());
                    let failed = Cell::new(false);
                    let strat = prop.strategy(tier);
                    let res = runner.run(&strat, |case| {
                        if !failed.get() && stop.load(Ordering::Relaxed) {
                            return Ok(());
                        }
                        let o = evaluate(prop, &case, known);
                        if !failed.get() {
                            tally.borrow_mut().record(&case, &o, 2);
                        }
                        match o.result {
                            Ok(()) => Ok(()),
                            Err(f) => {
                                failed.set(true);
                                stop.store(true, Ordering::Relaxed);
                                Err(TestCaseError::fail(f.signature))
                            }
                        }
                    });
                    let found = match res {
                        Ok(()) => None,
                        Err(TestError::Fail(_, case)) => {
                            let o = evaluate(prop, &case, known);
                            match o.result {
                                Err(f) => Some(Found { case, failure: f, origin: format!("generated:worker{w}") }),
                                Ok(()) => Some(Found {
                                    case,
                                    failure: Failure { signature: "nondeterministic".into(), message: "shrunk case passes on re-evaluation (harness nondeterminism)".into() },
                                    origin: format!("generated:worker{w}"),
                                }),
                            }
                        }
                        Err(TestError::Abort(r)) => Some(Found {
                            case: match strat.new_tree(&mut runner) {
                                Ok(t) => {
                                    use proptest::strategy::ValueTree;
                                    t.current()
                                }
                                Err(_) => unreachable!(),
                            },
                            failure: Failure { signature: "abort".into(), message: format!("proptest aborted: {r}") },
                            origin: "abort".into(),
                        }),
                    };
                    (tally.into_inner(), found)
                }));
            }
            for h in hs {
                results.push(h.join().expect("worker panicked outside catch_unwind"));
            }
        });
        for (t, f) in results {
            generated += t.evaluations;
            tally.merge(t, 8);
            if found.is_none() {
                found = f;
            }
        }
    }

    // harness-level failures are never violations
    if let Some(f) = &found {
        if f.failure.signature == "abort" || f.failure.signature == "nondeterministic" {
            eprintln!("harness error: {}", f.failure.message);
            return 2;
        }
    }

    let mut rc = 0;
    let mut violations = 0;
    let mut replay_path: Option<PathBuf> = None;
    if let Some(f) = found {
        let origin = f.origin.clone();
        let (case, failure) = minimise(prop, f.case, f.failure, &known);
        let fin = Found { case, failure, origin };
        let path = write_replay::<P>(env, tier, &fin);
        println!("FAILURE property={} signature={} :: {}", P::ID, fin.failure.signature, fin.failure.message);
        println!("VIOLATION property={} replay={}", P::ID, path.display());
        replay_path = Some(path);
        violations = 1;
        rc = 1;
    }

    for (sig, cnt) in &tally.known_hits {
        println!("KNOWN-FINDING: property={} {} [signature {}; {} occurrences tolerated in this run]", P::ID, known.what(P::ID, sig), sig, cnt);
    }

    // required classes
    let mut missing = Vec::new();
    if rc == 0 {
        for c in prop.required_classes(tier) {
            if tally.classes.get(&c).copied().unwrap_or(0) == 0 {
                missing.push(c);
            }
        }
    }

    // evidence
    let wall = t0.elapsed().as_secs_f64();
    let mut cov = Map::new();
    cov.insert("evaluations".into(), json!(tally.evaluations));
    cov.insert("distinct_nontrivial".into(), json!(tally.nontrivial.len()));
    cov.insert("rule".into(), json!(prop.rule()));
    cov.insert("samples".into(), Value::Array(tally.samples.clone()));
    cov.insert("corpus_cases".into(), json!(corpus_cases));
    cov.insert("edge_cases".into(), json!(edge_cases));
    cov.insert("generated_cases".into(), json!(generated));
    cov.insert("oracle_sub_evaluations".into(), json!(tally.sub_evaluations));
    cov.insert("excluded_by_domain".into(), json!(tally.excluded));
    cov.insert("excluded_known".into(), json!(tally.known_hits.values().sum::<u64>()));
    cov.insert("exhaustive".into(), json!(prop.exhaustive()));
    cov.insert("workers".into(), json!(env.jobs));
    if !missing.is_empty() {
        cov.insert("missing_required_classes".into(), json!(missing));
    }
    if let Some(p) = &replay_path {
        cov.insert("replay".into(), json!(p.display().to_string()));
    }
    let mut classes = tally.classes.clone();
    prop.extra_coverage(&mut classes, &mut cov);
    cov.insert("classes".into(), json!(classes));
    let ev = json!({
        "property_id": P::ID,
        "tier": tier.name(),
        "seed": env.seed,
        "level": P::LEVEL,
        "coverage": Value::Object(cov),
        "assumptions": prop.assumptions(),
        "wall_s": wall,
        "violations": violations,
    });
    let evdir = env.out_dir.join("evidence");
    let _ = std::fs::create_dir_all(&evdir);
    if let Err(e) = std::fs::write(evdir.join(format!("{}.json", P::ID)), serde_json::to_string_pretty(&ev).unwrap()) {
        eprintln!("harness error: cannot write evidence: {e}");
        return 2;
    }
    println!(
        "{} tier={} seed={} evaluations={} distinct_nontrivial={} known={} wall={:.1}s => {}",
        P::ID,
        tier.name(),
        env.seed,
        tally.evaluations,
        tally.nontrivial.len(),
        tally.known_hits.values().sum::<u64>(),
        wall,
        if rc == 0 { "held" } else { "VIOLATED" }
    );
    if rc == 0 && !missing.is_empty() {
        eprintln!("harness error: required classes never exercised: {missing:?}");
        return 2;
    }
    rc
}

pub fn replay_property<P: Property>(prop: &P, path: &Path, env: &Env) -> i32 {
    std::panic::set_hook(Box::new(|_| {}));
    let known = match KnownFindings::load(&env.verif_dir) {
        Ok(k) => k,
        Err(e) => {
            eprintln!("harness error: {e}");
            return 2;
        }
    };
    if let Err(e) = prop.prepare(Tier::Quick) {
        eprintln!("harness error: prepare failed: {e}");
        return 2;
    }
    let case: P::Case = match load_case_file(path) {
        Ok(c) => c,
        Err(e) => {
            eprintln!("harness error: {e}");
            return 2;
        }
    };
    let o = evaluate(prop, &case, &known);
    for (sig, cnt) in &o.known_hits {
        println!("KNOWN-FINDING: property={} {} [signature {}; {} occurrences]", P::ID, known.what(P::ID, sig), sig, cnt);
    }
    match o.result {
        Ok(()) => {
            println!("{} replay {}: case passes", P::ID, path.display());
            0
        }
        Err(f) => {
            println!("FAILURE property={} signature={} :: {}", P::ID, f.signature, f.message);
            println!("VIOLATION property={} replay={}", P::ID, path.display());
            1
        }
    }
}
