//! Witness forging (C14, second fault family; DESIGN §12.4).
//!
//! A malicious prover is not limited to the hints the library computes out of circuit: every
//! witness variable is theirs to choose. After a synthesis (honest, or with substituted isqrt
//! hints) the finished constraint system is extracted as matrices, one witness variable is set
//! to a different value, and everything allocated *after* it is re-derived by constraint
//! propagation: a violated constraint with a single later unknown is solved for it (products,
//! inverses, selections are all linear in their newest variable), a violated linear constraint
//! over several later booleans with power-of-two coefficients is solved as a bit decomposition.
//! A forgery *succeeds* when the full system is satisfied again. It is a soundness violation when,
//! in addition, every free input still has its original value while some observable output
//! differs from the native result (or the native operation rejects the inputs altogether).
//!
//! Own evaluator on the extracted matrices: the constraint system's `is_satisfied` caches the
//! values of symbolic linear combinations and is not reliable after assignments are edited.

use crate::api::ark;
use crate::r1cs_lang::{Mat, MatItem, AE};
use ark_ff::{BigInteger, Field, PrimeField};
use ark_relations::r1cs::ConstraintSystemRef;

type Fq = ark::Fq;
type Row = Vec<(Fq, usize)>;

pub struct Sys {
    pub ninst: usize,
    pub a: Vec<Row>,
    pub b: Vec<Row>,
    pub c: Vec<Row>,
    /// base assignment: instance variables (column 0 is the constant one) then witnesses
    pub z: Vec<Fq>,
    pub boolean: Vec<bool>,
}

fn dot(row: &Row, z: &[Fq]) -> Fq {
    let mut acc = Fq::ZERO;
    for (k, col) in row {
        acc += *k * z[*col];
    }
    acc
}

fn coeff(row: &Row, col: usize) -> Fq {
    let mut acc = Fq::ZERO;
    for (k, c) in row {
        if *c == col {
            acc += *k;
        }
    }
    acc
}

fn only_const(row: &Row) -> bool {
    row.iter().all(|(k, c)| *c == 0 || *k == Fq::ZERO)
}

impl Sys {
    pub fn extract(cs: &ConstraintSystemRef<Fq>) -> Option<Sys> {
        cs.finalize();
        let m = cs.to_matrices()?;
        let (inst, wit) = {
            let c = cs.borrow()?;
            (c.instance_assignment.clone(), c.witness_assignment.clone())
        };
        if inst.len() != m.num_instance_variables || wit.len() != m.num_witness_variables {
            return None;
        }
        let mut z = inst;
        z.extend(wit);
        let mut sys = Sys { ninst: m.num_instance_variables, a: m.a, b: m.b, c: m.c, z, boolean: Vec::new() };
        sys.boolean = vec![false; sys.z.len()];
        // u is boolean when some constraint over {1, u} alone holds exactly for u in {0, 1}
        for i in 0..sys.a.len() {
            let mut cols: Vec<usize> = sys.a[i].iter().chain(sys.b[i].iter()).chain(sys.c[i].iter()).filter(|(k, c)| *c != 0 && *k != Fq::ZERO).map(|(_, c)| *c).collect();
            cols.sort();
            cols.dedup();
            if cols.len() != 1 {
                continue;
            }
            let u = cols[0];
            let holds = |v: Fq| -> bool {
                let ev = |row: &Row| -> Fq { row.iter().map(|(k, c)| if *c == 0 { *k } else { *k * v }).sum() };
                ev(&sys.a[i]) * ev(&sys.b[i]) == ev(&sys.c[i])
            };
            if holds(Fq::ZERO) && holds(Fq::ONE) && !holds(Fq::from(2u64)) && !holds(-Fq::ONE) {
                sys.boolean[u] = true;
            }
        }
        Some(sys)
    }

    pub fn col_of_witness(&self, w: usize) -> usize {
        self.ninst + w
    }

    pub fn first_unsatisfied(&self, z: &[Fq]) -> Option<usize> {
        (0..self.a.len()).find(|&i| dot(&self.a[i], z) * dot(&self.b[i], z) != dot(&self.c[i], z))
    }

    /// Set column `col` to `v`, re-derive later witnesses, return the assignment if the whole system is satisfied.
    pub fn forge(&self, col: usize, v: Fq) -> Option<Vec<Fq>> {
        let mut z = self.z.clone();
        z[col] = v;
        let mut fixed = vec![false; z.len()];
        fixed[col] = true;
        for i in 0..self.a.len() {
            let (a, b, c) = (dot(&self.a[i], &z), dot(&self.b[i], &z), dot(&self.c[i], &z));
            if a * b == c {
                continue;
            }
            let mut cand: Vec<usize> = self.a[i].iter().chain(self.b[i].iter()).chain(self.c[i].iter()).filter(|(k, cc)| *k != Fq::ZERO && *cc > col && *cc >= self.ninst && !fixed[*cc]).map(|(_, cc)| *cc).collect();
            cand.sort();
            cand.dedup();
            if cand.is_empty() {
                return None;
            }
            // the newest unknown that this constraint determines linearly (usually the variable the constraint
            // was written to define; when it cannot absorb the change -- e.g. 0 * u = c -- an older one)
            let mut single: Option<(usize, Fq)> = None;
            for &u in cand.iter().rev() {
                let (au, bu, cu) = (coeff(&self.a[i], u), coeff(&self.b[i], u), coeff(&self.c[i], u));
                let delta = if au == Fq::ZERO && bu == Fq::ZERO && cu != Fq::ZERO {
                    cu.inverse().map(|ci| (a * b - c) * ci)
                } else if au == Fq::ZERO && cu == Fq::ZERO && bu != Fq::ZERO {
                    a.inverse().map(|ai| (c * ai - b) * bu.inverse().unwrap())
                } else if bu == Fq::ZERO && cu == Fq::ZERO && au != Fq::ZERO {
                    b.inverse().map(|bi| (c * bi - a) * au.inverse().unwrap())
                } else if only_const(&self.b[i]) && bu == Fq::ZERO {
                    // beta * A(z) = C(z): linear in u through A and C
                    let k = b * au - cu;
                    k.inverse().map(|ki| (c - a * b) * ki)
                } else if only_const(&self.a[i]) && au == Fq::ZERO {
                    let k = a * bu - cu;
                    k.inverse().map(|ki| (c - a * b) * ki)
                } else {
                    None
                };
                if let Some(d) = delta {
                    single = Some((u, d));
                    break;
                }
            }
            // several later booleans in a linear constraint: a bit decomposition
            let lin = if only_const(&self.b[i]) {
                Some((b, &self.a[i]))
            } else if only_const(&self.a[i]) {
                Some((a, &self.b[i]))
            } else {
                None
            };
            let bools: Vec<usize> = cand.iter().copied().filter(|c| self.boolean[*c]).collect();
            let mut done = false;
            if bools.len() >= 2 {
                if let Some((beta, row)) = lin {
                    done = self.solve_bits(i, beta, row, &bools, &mut z, &mut fixed).is_some();
                }
            }
            if !done {
                let (u, delta) = single?;
                z[u] += delta;
                fixed[u] = true;
            }
        }
        if self.first_unsatisfied(&z).is_some() {
            return None;
        }
        Some(z)
    }

    /// beta * row(z) = C_i(z) with unknown booleans `bools` (coefficients s * 2^k in beta*row - C): assign the bits
    fn solve_bits(&self, i: usize, beta: Fq, row: &Row, bools: &[usize], z: &mut Vec<Fq>, fixed: &mut Vec<bool>) -> Option<()> {
        // net coefficient of each unknown boolean in L(z) = beta*row(z) - C_i(z)
        let mut ks: Vec<(usize, Fq)> = Vec::new();
        for &u in bools {
            let k = beta * coeff(row, u) - coeff(&self.c[i], u);
            if k == Fq::ZERO {
                return None;
            }
            ks.push((u, k));
        }
        // rest = L(z) with the unknown booleans set to zero
        let mut rest = beta * dot(row, z) - dot(&self.c[i], z);
        for (u, k) in &ks {
            rest -= *k * z[*u];
        }
        // need sum k_u * b_u = -rest
        for sign in [Fq::ONE, -Fq::ONE] {
            let mut pos: Vec<(usize, u32)> = Vec::new();
            let mut ok = true;
            for (u, k) in &ks {
                let kk = (*k * sign).into_bigint();
                if kk.num_bits() == 0 {
                    ok = false;
                    break;
                }
                let e = kk.num_bits() - 1;
                let mut p2 = <Fq as PrimeField>::BigInt::from(1u64);
                p2.muln(e);
                if kk != p2 {
                    ok = false;
                    break;
                }
                pos.push((*u, e));
            }
            if !ok {
                continue;
            }
            let mut es: Vec<u32> = pos.iter().map(|p| p.1).collect();
            es.sort();
            es.dedup();
            if es.len() != pos.len() {
                continue;
            }
            // the canonical integer of the required sum, then the same residue plus the modulus (the
            // non-canonical decomposition a missing range check would admit)
            let canonical = (-rest * sign).into_bigint();
            let mut shifted = canonical;
            let carry = shifted.add_with_carry(&<Fq as PrimeField>::MODULUS);
            let mut candidates = vec![canonical];
            if !carry {
                candidates.push(shifted);
            }
            for target in candidates {
                // every set bit of the target must be one of the positions
                let mut covered = <Fq as PrimeField>::BigInt::from(0u64);
                let mut assign: Vec<(usize, bool)> = Vec::new();
                for (u, e) in &pos {
                    let bit = target.get_bit(*e as usize);
                    if bit {
                        let mut p2 = <Fq as PrimeField>::BigInt::from(1u64);
                        p2.muln(*e);
                        covered.add_with_carry(&p2);
                    }
                    assign.push((*u, bit));
                }
                if covered != target {
                    continue;
                }
                for (u, bit) in assign {
                    z[u] = if bit { Fq::ONE } else { Fq::ZERO };
                    fixed[u] = true;
                }
                return Some(());
            }
        }
        None
    }
}

#[derive(Debug, Clone, PartialEq, Eq)]
pub enum Verdict {
    /// no satisfying completion found
    Rejected,
    /// satisfied, every input and output keeps its value (a free internal witness)
    SatisfiedHarmless,
    /// satisfied, but a free input changed: a different statement, not judged
    SatisfiedInputChanged,
    /// satisfied, inputs unchanged, an observable differs from the native result
    Wrong(String),
}

fn elem_of(z: &[Fq], sys: &Sys, x: usize, y: usize) -> Option<AE> {
    let (x, y) = (z[sys.col_of_witness(x)], z[sys.col_of_witness(y)]);
    // on the curve: -x^2 + y^2 = 1 + d x^2 y^2
    let d = Fq::from(3021u64);
    if -(x * x) + y * y != Fq::ONE + d * x * x * y * y {
        return None;
    }
    Some(AE::verif_from_affine_unchecked(x, y))
}

fn item_ok(z: &[Fq], sys: &Sys, it: &MatItem) -> Result<(), String> {
    match it {
        MatItem::Elem { what, x, y, native } => match elem_of(z, sys, *x, *y) {
            Some(e) if e == *native => Ok(()),
            Some(_) => Err(format!("{what} denotes a different element than the native result")),
            None => Err(format!("{what} holds coordinates that are not on the curve")),
        },
        MatItem::Fq { what, w, native, sign_free } => {
            let got = z[sys.col_of_witness(*w)];
            if got == *native || (*sign_free && got == -*native) {
                Ok(())
            } else {
                Err(format!("{what} is {} but the native value is {}", hex::encode(got.to_bytes()), hex::encode(native.to_bytes())))
            }
        }
        MatItem::Coords { what, bits, per, native } => {
            use num_bigint::BigUint;
            let q = &crate::refmodel::Q.m;
            let int = |cols: &[Result<usize, bool>]| -> Option<BigUint> {
                let mut n = BigUint::from(0u32);
                for (i, c) in cols.iter().enumerate() {
                    let v = match c {
                        Ok(col) => z[sys.col_of_witness(*col)],
                        Err(b) => if *b { Fq::ONE } else { Fq::ZERO },
                    };
                    if v == Fq::ONE {
                        n.set_bit(i as u64, true);
                    } else if v != Fq::ZERO {
                        return None;
                    }
                }
                Some(n)
            };
            let (x, y) = match (int(&bits[..*per]), int(&bits[*per..])) {
                (Some(x), Some(y)) => (x, y),
                _ => return Err(format!("{what} are not all boolean")),
            };
            if &x >= q || &y >= q {
                return Err(format!("{what} are a non-canonical decomposition (a coordinate is not below q): x = {x:x}, y = {y:x}"));
            }
            let want = crate::api::Coords::of::<crate::api::Ark>(native).affine().map_err(|e| e)?;
            if !crate::refmodel::CURVE.same_element(&want, &crate::refmodel::Pt { x, y }) {
                return Err(format!("{what} do not denote the element"));
            }
            Ok(())
        }
        MatItem::Bool { what, w, native } => {
            let got = z[sys.col_of_witness(*w)];
            if got == if *native { Fq::ONE } else { Fq::ZERO } {
                Ok(())
            } else {
                Err(format!("{what} is {} but native says {native}", if got == Fq::ONE { "true".to_string() } else if got == Fq::ZERO { "false".to_string() } else { "not boolean".to_string() }))
            }
        }
    }
}

/// judge a satisfying assignment `z`; `native_rejects`: the native program fails on these inputs
pub fn judge(sys: &Sys, mat: &Mat, z: &[Fq], native_rejects: Option<&str>) -> Verdict {
    for it in &mat.inputs {
        if let MatItem::Fq { w, native, sign_free: true, what } = it {
            // the sign of an isqrt output is the prover's choice: the other root is another statement,
            // anything else is a wrong root
            let got = z[sys.col_of_witness(*w)];
            if got == *native {
                continue;
            }
            if got == -*native {
                return Verdict::SatisfiedInputChanged;
            }
            return Verdict::Wrong(format!("{what} is {} which is neither square root +-{}", hex::encode(got.to_bytes()), hex::encode(native.to_bytes())));
        }
        if item_ok(z, sys, it).is_err() {
            return Verdict::SatisfiedInputChanged;
        }
    }
    if let Some(why) = native_rejects {
        return Verdict::Wrong(format!("the native operation rejects the inputs ({why})"));
    }
    for it in &mat.outputs {
        if let Err(why) = item_ok(z, sys, it) {
            return Verdict::Wrong(why);
        }
    }
    Verdict::SatisfiedHarmless
}

/// deterministic choice of forging targets: (column, new value) pairs among the witnesses allocated
/// before the materialised observables. Always: every non-boolean witness negated (sign slips are the
/// characteristic forgery in this library: encodings, square roots and coordinates are all defined up
/// to a sign that a gadget must pin) and zeroed (an unpinned factor collapses whatever it multiplies).
/// Then, up to `max` more: boolean witnesses flipped and non-boolean ones set to v+1 and 1 -- all of
/// them when they fit, a seeded sample otherwise.
pub fn targets(sys: &Sys, mat: &Mat, seed: u64, max: usize) -> Vec<(usize, Fq)> {
    let lo = sys.ninst;
    let hi = sys.col_of_witness(mat.first_wit);
    if hi <= lo {
        return vec![];
    }
    let mut state = seed ^ 0x9e37_79b9_7f4a_7c15;
    let mut next = move || {
        state = state.wrapping_add(0x9e37_79b9_7f4a_7c15);
        let mut x = state;
        x = (x ^ (x >> 30)).wrapping_mul(0xbf58_476d_1ce4_e5b9);
        x = (x ^ (x >> 27)).wrapping_mul(0x94d0_49bb_1331_11eb);
        x ^ (x >> 31)
    };
    let is_bit = |col: usize| sys.boolean[col] || sys.z[col] == Fq::ZERO || sys.z[col] == Fq::ONE;
    let mut out = Vec::new();
    let mut rest: Vec<(usize, Fq)> = Vec::new();
    for col in lo..hi {
        let cur = sys.z[col];
        if is_bit(col) {
            rest.push((col, Fq::ONE - cur));
        } else {
            if out.len() < 8000 {
                out.push((col, -cur));
                out.push((col, Fq::ZERO));
            }
            rest.push((col, cur + Fq::ONE));
            rest.push((col, Fq::ONE));
        }
    }
    // the least and most significant bit of every run of at least 8 consecutive boolean witnesses (a bit
    // decomposition allocates its bits consecutively): flipping the lowest one forces the re-derivation onto
    // the non-canonical decomposition value + q
    {
        let mut col = lo;
        while col < hi {
            if is_bit(col) {
                let start = col;
                while col < hi && is_bit(col) {
                    col += 1;
                }
                if col - start >= 8 {
                    out.push((start, Fq::ONE - sys.z[start]));
                    out.push((col - 1, Fq::ONE - sys.z[col - 1]));
                }
            } else {
                col += 1;
            }
        }
    }
    if rest.len() <= max {
        out.extend(rest);
    } else {
        for _ in 0..max {
            let k = (next() % rest.len() as u64) as usize;
            out.push(rest[k]);
        }
    }
    out
}
