//! Operands whose inversion by the 32-bit backend's Bernstein–Yang division steps needs
//! unusually many steps (found by `tools/divstep/search.c`, a multi-level splitting search; the
//! lists live in `tools/divstep/found/`), and a counter of the steps an operand needs.
//!
//! The backend runs a fixed number of steps, (49*bits + 57)/17, proven sufficient for every
//! input; a smaller count that is "enough" for all random inputs (they need about 2.07*bits
//! steps, standard deviation under 10) is a realistic slip that no random operand exposes.

use crate::refmodel::N;
use num_traits::Zero;

const FQ: &str = include_str!("../../tools/divstep/found/FQ.txt");
const FR: &str = include_str!("../../tools/divstep/found/FR.txt");
const FP: &str = include_str!("../../tools/divstep/found/FP.txt");

fn parse(s: &str) -> Vec<(u32, N)> {
    s.lines()
        .filter_map(|l| {
            let mut it = l.split_whitespace();
            let steps: u32 = it.next()?.parse().ok()?;
            let hex = it.next()?.trim_start_matches("0x");
            Some((steps, N::parse_bytes(hex.as_bytes(), 16)?))
        })
        .collect()
}

/// (claimed step count, operand) for the field with `bits` modulus bits
pub fn hard_operands(bits: u32) -> Vec<(u32, N)> {
    match bits {
        253 => parse(FQ),
        251 => parse(FR),
        377 => parse(FP),
        _ => vec![],
    }
}

const NL: usize = 7;
type Big = [u64; NL];

fn to_big(x: &N) -> Big {
    let mut out = [0u64; NL];
    for (i, d) in x.to_u64_digits().into_iter().enumerate().take(NL) {
        out[i] = d;
    }
    out
}
fn add(a: &Big, b: &Big) -> Big {
    let mut r = [0u64; NL];
    let mut c = 0u128;
    for i in 0..NL {
        c += a[i] as u128 + b[i] as u128;
        r[i] = c as u64;
        c >>= 64;
    }
    r
}
fn sub(a: &Big, b: &Big) -> Big {
    let mut r = [0u64; NL];
    let mut c = 1u128;
    for i in 0..NL {
        c += a[i] as u128 + (!b[i]) as u128;
        r[i] = c as u64;
        c >>= 64;
    }
    r
}
fn sar(r: &mut Big) {
    for i in 0..NL - 1 {
        r[i] = (r[i] >> 1) | (r[i + 1] << 63);
    }
    r[NL - 1] = ((r[NL - 1] as i64) >> 1) as u64;
}

/// number of division steps (delta = 1, f = m, g = x) until g = 0; the variant fiat-crypto's
/// `*_divstep` implements (swap when delta > 0 and g odd)
pub fn divsteps(m: &N, x: &N) -> u32 {
    if x.is_zero() {
        return 0;
    }
    let mut d: i64 = 1;
    let mut f = to_big(m);
    let mut g = to_big(x);
    let mut n = 0u32;
    while g.iter().any(|w| *w != 0) {
        if d > 0 && g[0] & 1 == 1 {
            let t = sub(&g, &f);
            f = g;
            g = t;
            sar(&mut g);
            d = 1 - d;
        } else {
            if g[0] & 1 == 1 {
                g = add(&g, &f);
            }
            sar(&mut g);
            d += 1;
        }
        n += 1;
        if n > 5000 {
            break;
        }
    }
    n
}

#[cfg(test)]
mod tests {
    use super::*;
    use crate::refmodel::{P, Q, R};
    #[test]
    fn table_counts_are_right() {
        for f in [&*Q, &*R, &*P] {
            let t = hard_operands(f.bits);
            assert!(!t.is_empty());
            for (claimed, x) in t {
                assert!(x < f.m);
                assert_eq!(divsteps(&f.m, &x), claimed);
            }
        }
    }
}
