//! Group elements are generated as *recipes* (trees of public-API operations), not as
//! values: a recipe is interpreted on the ark `Element`, on the min `Element` and on the
//! model, so it yields the element together with its provenance (which representative,
//! which projective scaling, what the model says it must be). DESIGN.md §4.

use crate::api::{limbs_of, Backend, Coords};
use crate::gen::{self, Num};
use crate::refmodel::{Pt, CURVE, GEN, N, R};
use num_traits::{One, Zero};
use proptest::prelude::*;
use serde::{Deserialize, Serialize};

#[derive(Clone, Debug, Serialize, Deserialize, PartialEq, Eq, Hash)]
pub enum Recipe {
    Identity,
    Default,
    Generator,
    /// one-input hash-to-group of a field element
    Elligator(Num),
    /// two-input hash-to-group
    Hash(Num, Num),
    /// k * G, k in Z/r
    MulGen(Num),
    /// library decoding of the little-endian bytes of this integer if the model says it is a
    /// valid encoding (structured encodings: sparse limbs, Montgomery patterns, ...); identity otherwise
    DecodeOr(Num),
    /// the group element with this affine x coordinate, if one exists (model solves the curve
    /// equation for y and checks group membership), entered through the decoder; identity otherwise
    FromX(Num),
    /// library decoding of the *model's* encoding of the sub-recipe (Z = 1, canonical representative)
    ReDecode(Box<Recipe>),
    Add(Box<Recipe>, Box<Recipe>),
    Sub(Box<Recipe>, Box<Recipe>),
    Neg(Box<Recipe>),
    Double(Box<Recipe>),
    Mul(Num, Box<Recipe>),
    /// multiplication by an integer given as little-endian u64 limbs (may exceed r)
    MulLimbs(Vec<u64>, Box<Recipe>),
    /// R + T2 with T2 := r*G = (0,-1): same element, other curve point
    Torsion(Box<Recipe>),
    /// (r-1) * R = -R as an element, usually as the other representative
    MinusOneTimes(Box<Recipe>),
    /// ark: into_affine -> into_group (Z = 1); min: no-op
    AffineRoundTrip(Box<Recipe>),
    /// (R + S) - S: same element, fresh projective scaling
    AddSub(Box<Recipe>, Box<Recipe>),
    /// integer multiplication through the *constant-time* ladder (min: scalar_mul; ark: mul_bigint)
    MulLimbsCt(Vec<u64>, Box<Recipe>),
    /// constant-time selection between two elements (min: ConditionallySelectable; ark: plain choice)
    Select(bool, Box<Recipe>, Box<Recipe>),
    /// a + b / a - b / -a / 2a / a + b + c through the i-th operator, method, trait or iterator form
    /// of the configuration that computes it (C04's catalogue: owned / borrowed / assigning, mixed
    /// affine-projective, Sum over exact and lazy iterators, ...): every internal representation the
    /// public forms can produce, not only the one `+` yields
    AddVia(u8, Box<Recipe>, Box<Recipe>),
    SubVia(u8, Box<Recipe>, Box<Recipe>),
    NegVia(u8, Box<Recipe>),
    DoubleVia(u8, Box<Recipe>),
    Sum3Via(u8, Box<Recipe>, Box<Recipe>, Box<Recipe>),
}

use Recipe::*;

/// model values for every node of a recipe (same shape as the recipe)
pub struct MTree {
    pub pt: Pt,
    pub kids: Vec<MTree>,
}

impl Recipe {
    pub fn kids(&self) -> Vec<&Recipe> {
        match self {
            Identity | Default | Generator | Elligator(_) | Hash(..) | MulGen(_) | DecodeOr(_) | FromX(_) => vec![],
            ReDecode(a) | Neg(a) | Double(a) | Mul(_, a) | MulLimbs(_, a) | MulLimbsCt(_, a) | Torsion(a) | MinusOneTimes(a) | AffineRoundTrip(a) | NegVia(_, a) | DoubleVia(_, a) => vec![a],
            Add(a, b) | Sub(a, b) | AddSub(a, b) | Select(_, a, b) | AddVia(_, a, b) | SubVia(_, a, b) => vec![a, b],
            Sum3Via(_, a, b, c) => vec![a, b, c],
        }
    }
    pub fn size(&self) -> usize {
        1 + self.kids().iter().map(|k| k.size()).sum::<usize>()
    }
    pub fn is_leaf(&self) -> bool {
        self.kids().is_empty()
    }

    /// evaluate on the model; every node's value is kept
    pub fn model(&self) -> MTree {
        let c = &*CURVE;
        let kids: Vec<MTree> = self.kids().into_iter().map(|k| k.model()).collect();
        let pt = match self {
            Identity | Default => c.identity(),
            Generator => GEN.clone(),
            Elligator(r0) => c.elligator_spec(&r0.0),
            Hash(a, b) => c.add(&c.elligator_spec(&a.0), &c.elligator_spec(&b.0)),
            MulGen(k) => c.mul(&k.0, &GEN),
            DecodeOr(sv) => c.decode_int(&sv.0).unwrap_or_else(|_| c.identity()),
            FromX(x) => point_from_x(&x.0).unwrap_or_else(|| c.identity()),
            ReDecode(_) => c.decode_int(&c.encode_spec(&kids[0].pt)).expect("model: encodings of valid points decode"),
            Add(..) | AddVia(..) => c.add(&kids[0].pt, &kids[1].pt),
            Sub(..) | SubVia(..) => c.sub(&kids[0].pt, &kids[1].pt),
            Neg(_) | NegVia(..) => c.neg(&kids[0].pt),
            Double(_) | DoubleVia(..) => c.dbl(&kids[0].pt),
            Sum3Via(..) => c.add(&c.add(&kids[0].pt, &kids[1].pt), &kids[2].pt),
            Mul(k, _) => c.mul(&k.0, &kids[0].pt),
            MulLimbs(l, _) | MulLimbsCt(l, _) => c.mul(&crate::api::int_of_limbs(l), &kids[0].pt),
            Select(choice, ..) => kids[if *choice { 1 } else { 0 }].pt.clone(),
            Torsion(_) => c.other_rep(&kids[0].pt),
            MinusOneTimes(_) => c.neg(&kids[0].pt),
            AffineRoundTrip(_) => kids[0].pt.clone(),
            AddSub(..) => kids[0].pt.clone(),
        };
        MTree { pt, kids }
    }

    /// evaluate through the public API of backend `B`
    pub fn lib<B: Backend>(&self, m: &MTree) -> B::E {
        let k = |i: usize| -> B::E { self.kids()[i].lib::<B>(&m.kids[i]) };
        match self {
            Identity => B::identity(),
            Default => B::default_elem(),
            Generator => B::generator(),
            Elligator(r0) => B::elligator(&r0.0),
            Hash(a, b) => B::hash2(&a.0, &b.0),
            MulGen(s) => B::mul_fr(&B::generator(), &s.0),
            DecodeOr(_) | FromX(_) => {
                // enter through the decoder with the model's canonical encoding of the model point
                let bytes = CURVE.encode_bytes(&m.pt);
                match B::decode(&bytes) {
                    Ok(e) => e,
                    Err(e) => panic!("{}: decoding the model's canonical encoding {} failed: {:?}", B::NAME, hex::encode(bytes), e),
                }
            }
            ReDecode(_) => {
                let bytes = CURVE.encode_bytes(&m.kids[0].pt);
                match B::decode(&bytes) {
                    Ok(e) => e,
                    Err(e) => panic!("{}: decoding the model's canonical encoding {} failed: {:?}", B::NAME, hex::encode(bytes), e),
                }
            }
            AddVia(i, ..) => B::op_form(crate::props::c04::Op::Add, *i, &k(0), &k(1), &B::identity()),
            SubVia(i, ..) => B::op_form(crate::props::c04::Op::Sub, *i, &k(0), &k(1), &B::identity()),
            NegVia(i, _) => B::op_form(crate::props::c04::Op::Neg, *i, &k(0), &B::identity(), &B::identity()),
            DoubleVia(i, _) => B::op_form(crate::props::c04::Op::Dbl, *i, &k(0), &B::identity(), &B::identity()),
            Sum3Via(i, ..) => B::op_form(crate::props::c04::Op::Sum3, *i, &k(0), &k(1), &k(2)),
            Add(..) => B::add(&k(0), &k(1)),
            Sub(..) => B::sub(&k(0), &k(1)),
            Neg(_) => B::neg(&k(0)),
            Double(_) => B::double(&k(0)),
            Mul(s, _) => B::mul_fr(&k(0), &s.0),
            MulLimbs(l, _) => B::mul_limbs(&k(0), l),
            MulLimbsCt(l, _) => B::mul_limbs_ct(&k(0), l),
            Select(choice, ..) => B::select(&k(0), &k(1), *choice),
            Torsion(_) => B::add(&k(0), &t2::<B>()),
            MinusOneTimes(_) => B::mul_fr(&k(0), &(&R.m - 1u32)),
            AffineRoundTrip(_) => B::affine_roundtrip(&k(0)),
            AddSub(..) => {
                let s = k(1);
                B::sub(&B::add(&k(0), &s), &s)
            }
        }
    }

    /// all single-step structural reductions, outermost first
    pub fn shrinks(&self) -> Vec<Recipe> {
        let mut out = Vec::new();
        // replace the node by one of its children
        for k in self.kids() {
            out.push(k.clone());
        }
        if !self.is_leaf() || !matches!(self, Identity | Generator) {
            if !matches!(self, Generator) {
                out.push(Generator);
            }
            if !matches!(self, Identity) {
                out.push(Identity);
            }
        }
        // reduce inside a child
        let rebuild = |i: usize, new: Recipe| -> Recipe {
            let mut c = self.clone();
            match &mut c {
                ReDecode(a) | Neg(a) | Double(a) | Mul(_, a) | MulLimbs(_, a) | MulLimbsCt(_, a) | Torsion(a) | MinusOneTimes(a) | AffineRoundTrip(a) | NegVia(_, a) | DoubleVia(_, a) => **a = new,
                Add(a, b) | Sub(a, b) | AddSub(a, b) | Select(_, a, b) | AddVia(_, a, b) | SubVia(_, a, b) => {
                    if i == 0 {
                        **a = new
                    } else {
                        **b = new
                    }
                }
                Sum3Via(_, a, b, c) => match i {
                    0 => **a = new,
                    1 => **b = new,
                    _ => **c = new,
                },
                _ => {}
            }
            c
        };
        for (i, k) in self.kids().into_iter().enumerate() {
            for s in k.shrinks() {
                out.push(rebuild(i, s));
            }
        }
        out
    }
}

/// a valid group element with the given affine x, if any: y^2 = (1 + x^2) / (1 - d x^2) for a = -1
pub fn point_from_x(x: &N) -> Option<Pt> {
    let c = &*CURVE;
    let f = &*crate::refmodel::Q;
    let x = x % &f.m;
    let xx = f.sq(&x);
    let den = f.sub(&N::one(), &f.mul(&c.d, &xx));
    let inv = f.inv(&den)?;
    let yy = f.mul(&f.add(&N::one(), &xx), &inv);
    let y = f.sqrt(&yy)?;
    let p = Pt { x, y };
    if c.valid(&p) {
        Some(p)
    } else {
        None
    }
}

/// T2 = r * G obtained through the public integer scalar multiplication.
pub fn t2<B: Backend>() -> B::E {
    B::mul_limbs(&B::generator(), &limbs_of(&R.m))
}

fn leaf() -> BoxedStrategy<Recipe> {
    prop_oneof![
        2 => Just(Identity),
        1 => Just(Default),
        3 => Just(Generator),
        4 => gen::fq().prop_map(Elligator),
        1 => (gen::fq(), gen::fq()).prop_map(|(a, b)| Hash(a, b)),
        3 => gen::scalar().prop_map(MulGen),
        1 => gen::fq().prop_map(DecodeOr),
        1 => gen::fq().prop_map(FromX),
    ]
    .boxed()
}

/// general recipes, depth <= `depth`
pub fn recipe_depth(depth: u32) -> BoxedStrategy<Recipe> {
    leaf()
        .prop_recursive(depth, 12, 2, |inner| {
            prop_oneof![
                2 => (inner.clone(), inner.clone()).prop_map(|(a, b)| Add(Box::new(a), Box::new(b))),
                2 => (inner.clone(), inner.clone()).prop_map(|(a, b)| Sub(Box::new(a), Box::new(b))),
                2 => inner.clone().prop_map(|a| Neg(Box::new(a))),
                2 => inner.clone().prop_map(|a| Double(Box::new(a))),
                1 => (gen::scalar(), inner.clone()).prop_map(|(k, a)| Mul(k, Box::new(a))),
                1 => (gen::scalar_limbs(), inner.clone()).prop_map(|(k, a)| MulLimbs(k, Box::new(a))),
                3 => inner.clone().prop_map(|a| Torsion(Box::new(a))),
                2 => inner.clone().prop_map(|a| MinusOneTimes(Box::new(a))),
                2 => inner.clone().prop_map(|a| AffineRoundTrip(Box::new(a))),
                2 => inner.clone().prop_map(|a| ReDecode(Box::new(a))),
                1 => (gen::scalar_limbs(), inner.clone()).prop_map(|(k, a)| MulLimbsCt(k, Box::new(a))),
                1 => (any::<bool>(), inner.clone(), inner.clone()).prop_map(|(c, a, b)| Select(c, Box::new(a), Box::new(b))),
                2 => (inner.clone(), inner.clone()).prop_map(|(a, b)| AddSub(Box::new(a), Box::new(b))),
                3 => (any::<u8>(), inner.clone(), inner.clone()).prop_map(|(i, a, b)| AddVia(i, Box::new(a), Box::new(b))),
                2 => (any::<u8>(), inner.clone(), inner.clone()).prop_map(|(i, a, b)| SubVia(i, Box::new(a), Box::new(b))),
                1 => (any::<u8>(), inner.clone()).prop_map(|(i, a)| NegVia(i, Box::new(a))),
                1 => (any::<u8>(), inner.clone()).prop_map(|(i, a)| DoubleVia(i, Box::new(a))),
                1 => (any::<u8>(), inner.clone(), inner.clone(), inner).prop_map(|(i, a, b, c)| Sum3Via(i, Box::new(a), Box::new(b), Box::new(c))),
            ]
        })
        .boxed()
}

pub fn recipe() -> BoxedStrategy<Recipe> {
    recipe_depth(3)
}

/// cheap recipes (no model scalar multiplication below the leaves): for properties that
/// evaluate many recipes per case
pub fn recipe_small() -> BoxedStrategy<Recipe> {
    recipe_depth(2)
}

/// Everything the model can say about a library element.
pub struct Judged {
    pub affine: Pt,
    pub z_is_one: bool,
    /// the library holds the representative that decoding would produce
    pub canonical_rep: bool,
}

/// Judge a library element against the model point `want` (any representative of the
/// expected element): coordinates well-formed and denoting one of the two curve points
/// of that element. Returns a description of the discrepancy otherwise.
pub fn judge<B: Backend>(e: &B::E, want: &Pt) -> Result<Judged, String> {
    let c = &*CURVE;
    let co = Coords::of::<B>(e);
    let affine = co.affine()?;
    if !c.same_element(want, &affine) {
        let what = if !c.on_curve(&affine) { "not on the curve" } else { "a different element" };
        return Err(format!(
            "coordinates denote ({:x}, {:x}) which is {what}; expected ({:x}, {:x}) or its coset partner",
            affine.x, affine.y, want.x, want.y
        ));
    }
    let canon = c.decode_int(&c.encode_spec(want)).map_err(|_| "model: expected point has no decodable encoding".to_string())?;
    Ok(Judged { z_is_one: co.z_is_one(), canonical_rep: affine == canon, affine })
}

/// `judge` with the canonical representative of the expected element supplied by the caller
pub fn judge_with<B: Backend>(e: &B::E, want: &Pt, canon: &Pt) -> Result<Judged, String> {
    let co = Coords::of::<B>(e);
    let affine = judge_fast::<B>(e, want)?;
    Ok(Judged { z_is_one: co.z_is_one(), canonical_rep: affine == *canon, affine })
}

/// Like `judge` but without classifying the representative (no model square root).
pub fn judge_fast<B: Backend>(e: &B::E, want: &Pt) -> Result<Pt, String> {
    let c = &*CURVE;
    let co = Coords::of::<B>(e);
    let affine = co.affine()?;
    if !c.same_element(want, &affine) {
        let what = if !c.on_curve(&affine) { "not on the curve" } else { "a different element" };
        return Err(format!(
            "coordinates denote ({:x}, {:x}) which is {what}; expected ({:x}, {:x}) or its coset partner",
            affine.x, affine.y, want.x, want.y
        ));
    }
    Ok(affine)
}

pub fn is_zero_one(k: &N) -> bool {
    k.is_zero() || k.is_one()
}
