//! decaf377 verification harness: property-based testing / fuzzing against an
//! independent big-integer reference model. See /verif/DESIGN.md.
pub mod api;
#[macro_use]
pub mod engine;
pub mod forge;
pub mod fuzzdec;
pub mod gen;
pub mod hard_inverse;
pub mod pinned;
pub mod props;
pub mod r1cs_lang;
pub mod recipe;
pub mod refmodel;
