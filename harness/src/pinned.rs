//! The seven pinned Groth16 circuits and keys, taken from the repository's own test file
//! (`tests/groth16_gadgets.rs` of the tree under test, included verbatim; its `#[test]`
//! functions vanish outside `cfg(test)`). The constructors below live in the same module and
//! can therefore fill the circuits' private fields.
#![allow(dead_code, unused_imports, unused_variables)]

mod repo_tests {
    include!(concat!(env!("VERIF_REPO_DIR"), "/tests/groth16_gadgets.rs"));

    pub type Pk = ProvingKey<Bls12_377>;
    pub type Vk = VerifyingKey<Bls12_377>;

    #[derive(Clone)]
    pub enum Pinned {
        DiscreteLog(DiscreteLogCircuit),
        Compression(CompressionCircuit),
        Decompression(DecompressionCircuit),
        Elligator(ElligatorCircuit),
        PublicElementInput(PublicElementInput),
        Negation(NegationCircuit),
        AddAssignAdd(AddAssignAddCircuit),
    }

    pub const NAMES: [&str; 7] = ["discrete_log", "compression", "decompression", "elligator", "public_element_input", "negation", "add_assign_add"];

    pub fn keys(i: usize) -> (&'static Pk, &'static Vk) {
        match i {
            0 => (&*DISCRETE_LOG_PK, &*DISCRETE_LOG_VK),
            1 => (&*COMPRESSION_PK, &*COMPRESSION_VK),
            2 => (&*DECOMPRESSION_PK, &*DECOMPRESSION_VK),
            3 => (&*ELLIGATOR_PK, &*ELLIGATOR_VK),
            4 => (&*PUBLIC_ELEMENT_INPUT_PK, &*PUBLIC_ELEMENT_INPUT_VK),
            5 => (&*NEGATION_PK, &*NEGATION_VK),
            _ => (&*ADD_ASSIGN_ADD_PK, &*ADD_ASSIGN_ADD_VK),
        }
    }

    /// honest instance of circuit `i` from the given values; returns the circuit and its public inputs
    pub fn honest(i: usize, a: Element, b: Element, x: Fq, scalar: [u8; 32]) -> (Pinned, Vec<Fq>) {
        match i {
            0 => {
                use ark_ec::Group;
                let mut limbs = [0u64; 4];
                for (j, l) in limbs.iter_mut().enumerate() {
                    *l = u64::from_le_bytes(scalar[8 * j..8 * j + 8].try_into().unwrap());
                }
                let public = Element::GENERATOR.mul_bigint(limbs);
                (Pinned::DiscreteLog(DiscreteLogCircuit { scalar, public }), public.to_field_elements().unwrap())
            }
            1 => {
                let field_element = a.vartime_compress_to_field();
                (Pinned::Compression(CompressionCircuit { point: a, field_element }), vec![field_element])
            }
            2 => {
                let field_element = a.vartime_compress_to_field();
                (Pinned::Decompression(DecompressionCircuit { field_element, point: a }), a.to_field_elements().unwrap())
            }
            3 => {
                let point = Element::encode_to_curve(&x);
                (Pinned::Elligator(ElligatorCircuit { field_element: x, point }), point.to_field_elements().unwrap())
            }
            4 => (Pinned::PublicElementInput(PublicElementInput { point: a }), a.to_field_elements().unwrap()),
            5 => {
                let public_neg = -a;
                (Pinned::Negation(NegationCircuit { pos: a, public_neg }), public_neg.to_field_elements().unwrap())
            }
            _ => {
                let (c, d) = (a + b, a - b);
                let mut pi = c.to_field_elements().unwrap();
                pi.extend(d.to_field_elements().unwrap());
                (Pinned::AddAssignAdd(AddAssignAddCircuit { a, b, c, d }), pi)
            }
        }
    }

    /// circuit `i` with a *false* statement: honest witness, but the statement (public part) replaced
    pub fn with_statement(i: usize, a: Element, b: Element, x: Fq, scalar: [u8; 32], wrong: Element, wrong_fq: Fq) -> Pinned {
        match honest(i, a, b, x, scalar).0 {
            Pinned::DiscreteLog(mut c) => {
                c.public = wrong;
                Pinned::DiscreteLog(c)
            }
            Pinned::Compression(mut c) => {
                c.field_element = wrong_fq;
                Pinned::Compression(c)
            }
            Pinned::Decompression(mut c) => {
                c.point = wrong;
                Pinned::Decompression(c)
            }
            Pinned::Elligator(mut c) => {
                c.point = wrong;
                Pinned::Elligator(c)
            }
            Pinned::PublicElementInput(c) => Pinned::PublicElementInput(c),
            Pinned::Negation(mut c) => {
                c.public_neg = wrong;
                Pinned::Negation(c)
            }
            Pinned::AddAssignAdd(mut c) => {
                c.d = wrong;
                Pinned::AddAssignAdd(c)
            }
        }
    }

    /// decompression circuit with an arbitrary (possibly invalid) witness encoding
    pub fn decompression_raw(field_element: Fq, point: Element) -> Pinned {
        Pinned::Decompression(DecompressionCircuit { field_element, point })
    }

    impl ConstraintSynthesizer<Fq> for Pinned {
        fn generate_constraints(self, cs: ark_relations::r1cs::ConstraintSystemRef<Fq>) -> ark_relations::r1cs::Result<()> {
            match self {
                Pinned::DiscreteLog(c) => c.generate_constraints(cs),
                Pinned::Compression(c) => c.generate_constraints(cs),
                Pinned::Decompression(c) => c.generate_constraints(cs),
                Pinned::Elligator(c) => c.generate_constraints(cs),
                Pinned::PublicElementInput(c) => c.generate_constraints(cs),
                Pinned::Negation(c) => c.generate_constraints(cs),
                Pinned::AddAssignAdd(c) => c.generate_constraints(cs),
            }
        }
    }
}

pub use repo_tests::{decompression_raw, honest, keys, with_statement, Pinned, Pk, Vk, NAMES};

/// load all fourteen key files (in parallel); they are `Lazy` statics of the included test file
pub fn load_all_keys() {
    std::thread::scope(|s| {
        for i in 0..7 {
            s.spawn(move || {
                let _ = keys(i);
            });
        }
    });
}
