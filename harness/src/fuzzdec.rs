//! Decoding of raw fuzzer bytes into the same case types the proptest properties use, so
//! that the libFuzzer targets (fuzz/) call exactly the oracles of C02 / C11 / C12 and a
//! crash artefact can be turned into an ordinary replay file.

use crate::engine::{Ctx, Failure, KnownFindings};
use crate::gen::{HexBytes, Num};
use crate::props::c04;
use crate::props::c05::MulForm;
use crate::props::c10::FId;
use crate::props::common::{Bk, Bytes32};
use crate::props::{c02, c11, c12};
use crate::recipe::Recipe;
use crate::refmodel::N;
use once_cell::sync::Lazy;

static KNOWN: Lazy<KnownFindings> = Lazy::new(|| {
    let dir = std::path::PathBuf::from(std::env::var("VERIF_DIR").unwrap_or_else(|_| "/verif".into()));
    KnownFindings::load(&dir).unwrap_or_default()
});

/// evaluate an oracle outside the engine (fuzz targets)
pub fn eval<F: FnOnce(&mut Ctx) -> Result<(), Failure>>(property: &'static str, f: F) -> Result<(), Failure> {
    let mut ctx = Ctx::for_fuzzing(&KNOWN, property);
    f(&mut ctx)
}

pub fn c02_case(data: &[u8]) -> Option<c02::Case> {
    let (sel, rest) = data.split_first()?;
    if sel & 1 == 0 {
        let mut b = [0u8; 32];
        for (i, x) in rest.iter().take(32).enumerate() {
            b[i] = *x;
        }
        Some(c02::Case::B32(Bytes32 { family: "fuzz".into(), bytes: HexBytes(b.to_vec()) }))
    } else {
        Some(c02::Case::Slice { family: "fuzz".into(), bytes: HexBytes(rest.iter().take(80).copied().collect()) })
    }
}

pub fn c11_case(data: &[u8]) -> Option<c11::Case> {
    let (sel, rest) = data.split_first()?;
    let f = [FId::Fq, FId::Fr, FId::Fp][(sel % 3) as usize];
    let bk = if (sel / 3) % 2 == 0 { Bk::Ark } else { Bk::Min };
    let item = match (sel / 6) % 4 {
        0 => c11::Item::Reduce { bytes: HexBytes(rest.iter().take(200).copied().collect()), be: false },
        1 => c11::Item::Reduce { bytes: HexBytes(rest.iter().take(200).copied().collect()), be: true },
        2 => c11::Item::Checked { v: Num(N::from_bytes_le(&rest[..rest.len().min(f.fld().nbytes)])), family: "fuzz".into() },
        _ => {
            let h = rest.len() / 2;
            c11::Item::Elems { a: Num(N::from_bytes_le(&rest[..h.min(48)])), b: Num(N::from_bytes_le(&rest[h..rest.len().min(h + 48)])), flag_sel: *sel }
        }
    };
    Some(c11::Case { bk, f, item })
}

pub fn c12_case(data: &[u8]) -> Option<c12::Case> {
    use arbitrary::Unstructured;
    let mut u = Unstructured::new(data);
    let kind: u8 = u.arbitrary().ok()?;
    match kind % 4 {
        0 => {
            let mut b = [0u8; 32];
            u.fill_buffer(&mut b).ok()?;
            Some(c12::Case::Decode { b: Bytes32 { family: "fuzz".into(), bytes: HexBytes(b.to_vec()) } })
        }
        1 => {
            let f = [FId::Fq, FId::Fr, FId::Fp][(u.arbitrary::<u8>().ok()? % 3) as usize];
            let n = u.len().min(200);
            Some(c12::Case::FieldBytes { f, bytes: HexBytes(u.bytes(n).ok()?.to_vec()) })
        }
        2 => {
            let n = u.len().min(80);
            Some(c12::Case::Slice { bytes: HexBytes(u.bytes(n).ok()?.to_vec()) })
        }
        _ => {
            // a small group program over registers initialised from cheap recipes
            let leaf = |u: &mut Unstructured| -> Option<Recipe> {
                Some(match u.arbitrary::<u8>().ok()? % 5 {
                    0 => Recipe::Identity,
                    1 => Recipe::Generator,
                    2 => Recipe::Elligator(Num(N::from(u.arbitrary::<u64>().ok()?))),
                    3 => Recipe::Torsion(Box::new(Recipe::Generator)),
                    _ => Recipe::MulGen(Num(N::from(u.arbitrary::<u32>().ok()?))),
                })
            };
            let regs = vec![leaf(&mut u)?, leaf(&mut u)?, leaf(&mut u)?];
            let shared: Vec<c04::Form> = c04::ALL_FORMS.iter().copied().filter(|f| f.in_ark() && f.in_min()).collect();
            let mulf = MulForm::of(Bk::Min);
            let mut prog = Vec::new();
            let n = (u.arbitrary::<u8>().ok()? % 10) as usize + 1;
            for _ in 0..n {
                let (dst, a, b): (u8, u8, u8) = (u.arbitrary().ok()?, u.arbitrary().ok()?, u.arbitrary().ok()?);
                let w: u8 = u.arbitrary().ok()?;
                prog.push(match w % 8 {
                    0..=4 => c12::GInstr::Op { dst, form: shared[(w as usize / 8 + a as usize) % shared.len()], a, b },
                    5 => c12::GInstr::Mul { dst, form: mulf[b as usize % mulf.len()], a, k: Num(N::from(u.arbitrary::<u64>().ok()?)) },
                    6 => {
                        let l = (u.arbitrary::<u8>().ok()? % 6) as usize;
                        let mut limbs = Vec::new();
                        for _ in 0..l {
                            limbs.push(u.arbitrary::<u64>().ok()?);
                        }
                        c12::GInstr::MulLimbs { dst, a, limbs, ct: b & 1 == 1 }
                    }
                    _ => c12::GInstr::Redecode { dst, a },
                });
            }
            Some(c12::Case::Program { regs, prog })
        }
    }
}
