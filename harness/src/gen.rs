//! Shared generators (proptest strategies). Sound first: only values reachable
//! through the public API; built by construction, not by filtering. DESIGN.md §4.

use crate::refmodel::{N, Q, R};
use num_traits::{One, Zero};
use proptest::prelude::*;
use serde::{Deserialize, Deserializer, Serialize, Serializer};

/// A non-negative integer that serialises as a hex string (replay files stay readable).
#[derive(Clone, PartialEq, Eq, Hash, PartialOrd, Ord)]
pub struct Num(pub N);

impl std::fmt::Debug for Num {
    fn fmt(&self, f: &mut std::fmt::Formatter<'_>) -> std::fmt::Result {
        write!(f, "0x{}", self.0.to_str_radix(16))
    }
}
impl Serialize for Num {
    fn serialize<S: Serializer>(&self, s: S) -> Result<S::Ok, S::Error> {
        s.serialize_str(&format!("0x{}", self.0.to_str_radix(16)))
    }
}
impl<'de> Deserialize<'de> for Num {
    fn deserialize<D: Deserializer<'de>>(d: D) -> Result<Self, D::Error> {
        let s = String::deserialize(d)?;
        let t = s.strip_prefix("0x").unwrap_or(&s);
        N::parse_bytes(t.as_bytes(), 16).map(Num).ok_or_else(|| serde::de::Error::custom("bad hex integer"))
    }
}
impl From<N> for Num {
    fn from(n: N) -> Self {
        Num(n)
    }
}
impl From<u64> for Num {
    fn from(n: u64) -> Self {
        Num(N::from(n))
    }
}

/// Byte string serialised as hex.
#[derive(Clone, PartialEq, Eq, Hash)]
pub struct HexBytes(pub Vec<u8>);
impl std::fmt::Debug for HexBytes {
    fn fmt(&self, f: &mut std::fmt::Formatter<'_>) -> std::fmt::Result {
        write!(f, "hex:{}", hex::encode(&self.0))
    }
}
impl Serialize for HexBytes {
    fn serialize<S: Serializer>(&self, s: S) -> Result<S::Ok, S::Error> {
        s.serialize_str(&hex::encode(&self.0))
    }
}
impl<'de> Deserialize<'de> for HexBytes {
    fn deserialize<D: Deserializer<'de>>(d: D) -> Result<Self, D::Error> {
        let s = String::deserialize(d)?;
        hex::decode(&s).map(HexBytes).map_err(|_| serde::de::Error::custom("bad hex bytes"))
    }
}
impl HexBytes {
    pub fn arr32(&self) -> Option<[u8; 32]> {
        if self.0.len() == 32 {
            let mut a = [0u8; 32];
            a.copy_from_slice(&self.0);
            Some(a)
        } else {
            None
        }
    }
}

/// monotone index selection (never `%`, so shrinking works)
pub fn pick(i: u16, len: usize) -> usize {
    ((i as usize) * len) >> 16
}

fn limb_pattern() -> impl Strategy<Value = u64> {
    prop_oneof![
        3 => Just(0u64),
        2 => Just(1u64),
        2 => Just(0xffff_ffffu64),
        2 => Just(0x1_0000_0000u64),
        2 => Just(0xffff_ffff_0000_0000u64),
        3 => Just(u64::MAX),
        1 => Just(u64::MAX - 1),
        1 => Just(1u64 << 63),
        3 => any::<u64>(),
    ]
}

/// raw limb vector with structured limbs
pub fn limb_vec(len: impl Into<proptest::collection::SizeRange>) -> impl Strategy<Value = Vec<u64>> {
    proptest::collection::vec(limb_pattern(), len)
}

fn from_limbs(l: &[u64]) -> N {
    let mut acc = N::zero();
    for (i, w) in l.iter().enumerate() {
        acc += N::from(*w) << (64 * i);
    }
    acc
}

/// Integers in [0, m): uniform, small, near m, near m/2, powers of two (+-1), limb patterns.
pub fn fe(m: &N) -> BoxedStrategy<Num> {
    let m = m.clone();
    let bits = m.bits();
    let nlimbs = ((bits + 63) / 64) as usize;
    let nbytes = ((bits + 7) / 8) as usize;
    let m1 = m.clone();
    let m2 = m.clone();
    let m3 = m.clone();
    let m4 = m.clone();
    let m5 = m.clone();
    let m6 = m.clone();
    let m7 = m.clone();
    let m8 = m.clone();
    let m9 = m.clone();
    // R^-1 for R = 2^(64*limbs): values whose *Montgomery representation* is a limb pattern
    let rinv = {
        let r = (N::one() << (64 * nlimbs)) % &m;
        r.modpow(&(&m - 2u32), &m)
    };
    let sparse32 = move || {
        // few non-zero 32-bit limbs: a * 2^(32 i) + b * 2^(32 j)
        (0usize..nlimbs * 2, 0usize..nlimbs * 2, prop_oneof![Just(1u32), Just(u32::MAX), Just(0x8000_0000u32), Just(2u32), any::<u32>()], prop_oneof![3 => Just(0u32), 1 => Just(1u32), 1 => Just(u32::MAX), 1 => any::<u32>()])
            .prop_map(|(i, j, a, b)| (N::from(a) << (32 * i)) + (N::from(b) << (32 * j)))
    };
    let sp1 = sparse32();
    let sp2 = sparse32();
    let rinv2 = {
        let r = (N::one() << (64 * nlimbs)) % &m;
        r.modpow(&(&m - 2u32), &m)
    };
    prop_oneof![
        // the modulus minus a sparse limb pattern (agrees with m in most limbs)
        2 => sp1.prop_map(move |d| Num((&m8 + &m8 - (d % &m8)) % &m8)),
        // sparse Montgomery representations: (a*2^(32i) + b*2^(32j)) * R^-1
        2 => sp2.prop_map(move |d| Num(((d % &m9) * &rinv2) % &m9)),
        // Montgomery-domain limb patterns: v = L * R^-1 mod m with L sparse / patterned (32-bit granularity)
        3 => proptest::collection::vec(prop_oneof![6 => Just(0u32), 1 => Just(1u32), 2 => Just(u32::MAX), 1 => Just(0x8000_0000u32), 1 => Just(0x1000_0000u32), 2 => any::<u32>()], nlimbs * 2)
            .prop_map(move |l| {
                let mut acc = N::zero();
                for (i, w) in l.iter().enumerate() { acc += N::from(*w) << (32 * i); }
                Num(((acc % &m7) * &rinv) % &m7)
            }),
        // domain-confusion values: +-R^k mod m for k in -3..=3 (R = 2^(64*limbs)) times a small integer:
        // the elements whose canonical limbs are the Montgomery limbs of 1, 2, ... and vice versa
        1 => (0u32..7, 1u32..4, any::<bool>()).prop_map({
            let m = m.clone();
            move |(k, small, neg)| {
                let r = (N::one() << (64 * nlimbs)) % &m;
                let rinv = r.modpow(&(&m - 2u32), &m);
                let base = if k >= 3 { r.modpow(&N::from(k - 3), &m) } else { rinv.modpow(&N::from(3 - k), &m) };
                let v = (base * N::from(small)) % &m;
                Num(if neg { (&m - &v) % &m } else { v })
            }
        }),
        // uniform (wide reduce)
        6 => proptest::collection::vec(any::<u8>(), nbytes + 16).prop_map(move |b| Num(N::from_bytes_le(&b) % &m1)),
        // small
        3 => (0u32..65536).prop_map(|s| Num(N::from(s))),
        // m - 1 - small
        3 => (0u32..65536).prop_map(move |s| Num(&m2 - 1u32 - N::from(s))),
        // (m +- 1)/2 +- small
        2 => (0u32..64, any::<bool>(), any::<bool>()).prop_map(move |(s, hi, up)| {
            let half = if hi { (&m3 + 1u32) >> 1 } else { (&m3 - 1u32) >> 1 };
            let v = if up { half + N::from(s) } else { half - N::from(s) };
            Num(v % &m3)
        }),
        // 2^k, 2^k - 1, 2^k + 1
        3 => (0u64..bits, 0u8..3).prop_map(move |(k, which)| {
            let p = N::one() << k;
            let v = match which { 0 => p, 1 => p - 1u32, _ => p + 1u32 };
            Num(v % &m4)
        }),
        // limb patterns
        5 => limb_vec(nlimbs).prop_map(move |l| Num(from_limbs(&l) % &m5)),
        // 32-bit limb patterns
        2 => proptest::collection::vec(prop_oneof![Just(0u32), Just(1u32), Just(u32::MAX), Just(0x8000_0000u32), any::<u32>()], nlimbs * 2)
            .prop_map(move |l| {
                let mut acc = N::zero();
                for (i, w) in l.iter().enumerate() { acc += N::from(*w) << (32 * i); }
                Num(acc % &m6)
            }),
    ]
    .boxed()
}

pub fn fq() -> BoxedStrategy<Num> {
    fe(&Q.m)
}
pub fn fr() -> BoxedStrategy<Num> {
    fe(&R.m)
}

/// post-hoc classification (for the evidence histograms)
pub fn classify_fe(v: &N, m: &N) -> &'static str {
    let small = N::from(65536u32);
    if v.is_zero() {
        return "zero";
    }
    if v.is_one() {
        return "one";
    }
    if *v < small {
        return "small";
    }
    if v + &small >= *m {
        return "near-modulus";
    }
    let half = (m - 1u32) >> 1;
    let lo = &half - 70u32;
    let hi = &half + 70u32;
    if *v >= lo && *v <= hi {
        return "near-half";
    }
    let b = v.bits();
    let p = N::one() << (b - 1);
    if *v == p || *v == &p + 1u32 || v + 1u32 == (&p << 1) {
        return "pow2";
    }
    let l = v.to_u32_digits();
    let pat = l.iter().filter(|w| **w == 0 || **w == u32::MAX).count();
    if pat * 2 >= l.len() {
        return "limb-pattern";
    }
    "uniform"
}

/// Scalars for multiplication as elements of Z/r: field generator plus boundary values.
pub fn scalar() -> BoxedStrategy<Num> {
    let r = R.m.clone();
    let specials: Vec<N> = vec![
        N::zero(),
        N::one(),
        N::from(2u32),
        &r - 1u32,
        &r - 2u32,
        (&r - 1u32) >> 1,
        (&r + 1u32) >> 1,
        N::one() << 250,
        (N::one() << 250) - 1u32,
        N::from(u64::MAX),
        (N::one() << 128) - 1u32,
    ];
    let n = specials.len();
    prop_oneof![
        3 => fe(&r),
        1 => any::<u16>().prop_map(move |i| Num(specials[pick(i, n)].clone())),
    ]
    .boxed()
}

/// Integer scalars of arbitrary length as limb vectors (0..=8 limbs), incl. values >= r.
pub fn scalar_limbs() -> BoxedStrategy<Vec<u64>> {
    let r = R.m.clone();
    let specials: Vec<Vec<u64>> = vec![
        vec![],
        vec![0],
        vec![1],
        vec![0, 0, 0, 0, 1],
        vec![u64::MAX; 4],
        vec![u64::MAX; 5],
        r.to_u64_digits(),
        (&r + 1u32).to_u64_digits(),
        (&r - 1u32).to_u64_digits(),
        (&r * 2u32).to_u64_digits(),
        (&r * 2u32 - 1u32).to_u64_digits(),
        {
            let mut v = r.to_u64_digits();
            v.extend_from_slice(&[0, 0]);
            v
        },
    ];
    let n = specials.len();
    prop_oneof![
        2 => any::<u16>().prop_map(move |i| specials[pick(i, n)].clone()),
        3 => limb_vec(0..=8usize),
        2 => fr().prop_map(|k| k.0.to_u64_digits()),
    ]
    .boxed()
}

pub fn bytes(len: impl Into<proptest::collection::SizeRange>) -> BoxedStrategy<Vec<u8>> {
    let byte = prop_oneof![3 => Just(0u8), 3 => Just(0xffu8), 1 => Just(1u8), 1 => Just(0x80u8), 4 => any::<u8>()];
    prop_oneof![
        1 => proptest::collection::vec(any::<u8>(), len.into().clone()),
    ]
    .boxed()
    .prop_flat_map(move |v| {
        let n = v.len();
        (Just(v), proptest::collection::vec(byte.clone(), n), any::<u8>())
    })
    .prop_map(|(uni, pat, sel)| if sel & 1 == 0 { uni } else { pat })
    .boxed()
}

/// Fq values with emphasis on what the Elligator map and the square-root routine are
/// sensitive to: 0, +-1, small integers, powers of zeta, roots of unity of order 2^k.
pub fn fq_special() -> BoxedStrategy<Num> {
    use crate::refmodel::CURVE;
    let q = Q.m.clone();
    let q2 = q.clone();
    let zeta = CURVE.zeta.clone();
    let g = Q.pow(&zeta, &Q.trace); // generator of the 2-Sylow subgroup (order 2^47)
    let g2 = g.clone();
    let q3 = q.clone();
    prop_oneof![
        6 => fe(&q),
        2 => (0u32..32, any::<bool>()).prop_map(move |(s, neg)| Num(if neg { (&q2 - N::from(s)) % &q2 } else { N::from(s) })),
        2 => (0u32..200, any::<bool>()).prop_map(move |(k, neg)| { let v = Q.pow(&zeta, &N::from(k)); Num(if neg { Q.neg(&v) } else { v }) }),
        // root of unity of exact order 2^k, k = 0..=47, times an odd power
        2 => (0u32..=47, 0u32..64).prop_map(move |(k, odd)| {
            let e = (N::one() << (47 - k)) * N::from(2 * odd + 1);
            Num(Q.pow(&g, &e))
        }),
        // arbitrary element of the 2-Sylow subgroup
        1 => any::<u64>().prop_map(move |e| Num(Q.pow(&g2, &N::from(e & ((1u64 << 47) - 1))))),
        1 => (0u32..64).prop_map(move |s| Num((&q3 - 1u32) / 2u32 + N::from(s))),
        // +-R^k mod q, k in -2..=2, R = 2^256 (Montgomery-domain confusion)
        1 => (0u32..5, any::<bool>()).prop_map(|(k, neg)| {
            let r = (N::one() << 256) % &Q.m;
            let rinv = Q.inv(&r).unwrap();
            let v = if k >= 2 { Q.pow(&r, &N::from(k - 2)) } else { Q.pow(&rinv, &N::from(2 - k)) };
            Num(if neg { Q.neg(&v) } else { v })
        }),
    ]
    .boxed()
}

/// values whose *Montgomery representation* (R = 2^(64*limbs)) has at most two non-zero 32-bit
/// limbs: (a*2^(32i) + b*2^(32j)) * R^-1 mod m. Limb-selective slips in the generated field code
/// (a dropped carry, a limb left out of a comparison) only show on such values.
pub fn mont_sparse(m: &N) -> BoxedStrategy<Num> {
    let m = m.clone();
    let nlimbs = ((m.bits() + 63) / 64) as usize;
    let rinv = {
        let r = (N::one() << (64 * nlimbs)) % &m;
        r.modpow(&(&m - 2u32), &m)
    };
    (0usize..nlimbs * 2, 0usize..nlimbs * 2, prop_oneof![Just(1u32), Just(2u32), Just(6u32), Just(u32::MAX), Just(0x8000_0000u32), any::<u32>()], prop_oneof![4 => Just(0u32), 1 => Just(1u32), 1 => Just(u32::MAX), 1 => any::<u32>()], any::<bool>())
        .prop_map(move |(i, j, a, b, neg)| {
            let d = ((N::from(a) << (32 * i)) + (N::from(b) << (32 * j))) % &m;
            let v = (d * &rinv) % &m;
            Num(if neg { (&m - &v) % &m } else { v })
        })
        .boxed()
}

/// Target values for intermediate results: Montgomery-sparse, small / near-modulus / limb-pattern
/// values, and a few uniform ones.
pub fn structured_target() -> BoxedStrategy<Num> {
    let hard: Vec<N> = crate::hard_inverse::hard_operands(253).into_iter().map(|(_, x)| x).collect();
        prop_oneof![4 => mont_sparse(&Q.m), 3 => fq_special(), 3 => two_adic_structured(),
        // operands whose inversion by division steps takes the longest known (the 32-bit square-root-of-ratio inverts its denominator)
        1 => (any::<u16>(), 0u8..3).prop_map(move |(i, how)| {
            if hard.is_empty() { return Num(N::one()); }
            let x = hard[pick(i, hard.len())].clone();
            Num(match how { 0 => x, 1 => Q.inv(&x).unwrap_or_default(), _ => Q.neg(&x) })
        }),
        1 => (0u32..4, any::<bool>()).prop_map(|(k, neg)| Num(if neg { Q.neg(&N::from(k)) } else { N::from(k) }))].boxed()
}

/// Elligator inputs r0 constructed so that one intermediate value of the map (r, the two factors of
/// the denominator, den, num, num*den, r-1, n1, n2) equals a structured target: the defining
/// polynomial is solved for r and r/zeta's square root taken. Total: when the chosen site has no
/// preimage the other sites are tried in order, then the target itself is returned.
pub fn r0_targeted() -> BoxedStrategy<Num> {
    use crate::refmodel::CURVE;
    (0usize..9, structured_target(), any::<u16>())
        .prop_map(|(site, t, i)| {
            for k in 0..9 {
                let v = CURVE.elligator_preimages((site + k) % 9, &t.0);
                if !v.is_empty() {
                    return Num(v[pick(i, v.len())].clone());
                }
            }
            t
        })
        .boxed()
}

/// Decoder inputs s (either sign) constructed so that one intermediate value of decoding
/// (s^2, u1, u2, u2*u1^2, 1+s^2, 2*s*u1) equals a structured target.
pub fn s_targeted() -> BoxedStrategy<Num> {
    use crate::refmodel::CURVE;
    (0usize..6, structured_target(), any::<u16>())
        .prop_map(|(site, t, i)| {
            for k in 0..6 {
                let v = CURVE.decode_preimages((site + k) % 6, &t.0);
                if !v.is_empty() {
                    return Num(v[pick(i, v.len())].clone());
                }
            }
            t
        })
        .boxed()
}

/// Field elements whose *Montgomery representation* (R = 2^(64*limbs), shared by both backends) has one
/// 32-bit limb forced to a boundary pattern (0, 1, 2, 2^32-1, 2^32-2, 2^31, or the modulus' own limb
/// +-1) while all other limbs are random. Half of the time the forced limb is limb 0: the moduli of Fq
/// and Fp have low limb 1, so the generated code's final conditional subtraction / add-back borrows or
/// carries out of limb 0 only for such values.
pub fn mont_forced(m: &N) -> BoxedStrategy<Num> {
    let m = m.clone();
    let nlimbs64 = ((m.bits() + 63) / 64) as usize;
    let n32 = nlimbs64 * 2;
    let rinv = {
        let r = (N::one() << (64 * nlimbs64)) % &m;
        r.modpow(&(&m - 2u32), &m)
    };
    let bits = m.bits();
    (prop_oneof![4 => Just(0usize), 3 => 0usize..n32], 0u8..9, proptest::collection::vec(any::<u32>(), n32), any::<bool>())
        .prop_map(move |(i, pat, mut limbs, above)| {
            let mlimb = m.to_u32_digits().get(i).copied().unwrap_or(0);
            limbs[i] = match pat {
                0 => 0,
                1 => 1,
                2 => 2,
                3 => u32::MAX,
                4 => u32::MAX - 1,
                5 => 0x8000_0000,
                6 => mlimb.wrapping_sub(1),
                7 => mlimb.wrapping_add(1),
                _ => mlimb,
            };
            let mut t = N::zero();
            for (k, w) in limbs.iter().enumerate() {
                t += N::from(*w) << (32 * k);
            }
            // bring below the modulus without touching the forced limb where possible
            t &= (N::one() << (bits - 1)) - 1u32;
            if above && &t + (N::one() << (bits - 1)) < m {
                t += N::one() << (bits - 1);
            }
            if i == n32 - 1 || (bits - 1) / 32 == i as u64 {
                t %= &m;
            }
            Num((t * &rinv) % &m)
        })
        .boxed()
}

/// the low 32-bit limb of the Montgomery representation of v
pub fn mont_low_limb(v: &N, m: &N) -> u32 {
    let nlimbs64 = ((m.bits() + 63) / 64) as usize;
    let t = (v << (64 * nlimbs64)) % m;
    t.to_u32_digits().first().copied().unwrap_or(0)
}

/// Fq elements with a chosen 2-primary part: g^e * w^(2^47), g a generator of the 2-Sylow subgroup
/// (order 2^47), w arbitrary (so the odd-order part is generic), e from the structured exponents the
/// table-based square root is sensitive to: 0 (odd order), all ones, single bits, one 8-bit window at
/// 0 / 1 / maximum with the rest zero / all-ones / random, exact order 2^k; e or -e.
pub fn two_adic_structured() -> BoxedStrategy<Num> {
    use crate::refmodel::CURVE;
    const S: u32 = 47;
    let mask = (1u64 << S) - 1;
    let e = prop_oneof![
        3 => Just(0u64),
        2 => Just(mask),
        2 => (0u32..S).prop_map(|k| 1u64 << k),
        6 => (0u32..6, prop_oneof![Just(0u64), Just(1), Just(0x7f), Just(0x80), Just(0xff), 0u64..256], 0u8..3, any::<u64>()).prop_map(move |(j, d, fill, rnd)| {
            let shift = 8 * j;
            let bm = (0xffu64 << shift) & mask;
            let base = match fill { 0 => 0, 1 => mask, _ => rnd & mask };
            (base & !bm) | ((d << shift) & mask)
        }),
        2 => (1u32..=S, any::<u64>()).prop_map(move |(k, o)| (((o | 1) & ((1u64 << k) - 1)) << (S - k)) & mask),
        2 => any::<u64>().prop_map(move |e| e & mask),
    ];
    (e, any::<bool>(), fe(&Q.m), 0u8..4).prop_map(move |(e, negate, w, zpow)| {
        let g = Q.pow(&CURVE.zeta, &Q.trace);
        let e = if negate { e.wrapping_neg() & mask } else { e };
        let odd = Q.pow(&w.0, &(N::one() << S));
        let mut v = Q.mul(&Q.pow(&g, &N::from(e)), &odd);
        // times zeta^{0, 1, -1, 2}: the map multiplies / divides by zeta around the square root
        match zpow {
            1 => v = Q.mul(&v, &CURVE.zeta),
            2 => v = Q.mul(&v, &Q.inv(&CURVE.zeta).unwrap()),
            _ => {}
        }
        Num(v)
    })
    .boxed()
}
