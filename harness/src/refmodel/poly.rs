//! Root finding for small polynomials over a prime field (BigUint arithmetic, deterministic).
//!
//! Used by the generators that construct inputs whose *intermediate* values inside the library
//! (the Elligator map's `r`, `num`, `den`, `num*den`; the decoder's `1 - s^2`, `v`, `v*u2^2`) take a
//! chosen structured value: the input is obtained by solving the defining polynomial for the chosen
//! target. Polynomials are coefficient vectors, lowest degree first.

use super::{Fld, N};
use num_traits::{One, Zero};

pub type Poly = Vec<N>;

fn trim(p: &mut Poly) {
    while p.last().map_or(false, |c| c.is_zero()) {
        p.pop();
    }
}

pub fn deg(p: &Poly) -> isize {
    p.len() as isize - 1
}

pub fn eval(f: &Fld, p: &Poly, x: &N) -> N {
    let mut acc = N::zero();
    for c in p.iter().rev() {
        acc = f.add(&f.mul(&acc, x), c);
    }
    acc
}

pub fn mul(f: &Fld, a: &Poly, b: &Poly) -> Poly {
    if a.is_empty() || b.is_empty() {
        return vec![];
    }
    let mut out = vec![N::zero(); a.len() + b.len() - 1];
    for (i, x) in a.iter().enumerate() {
        for (j, y) in b.iter().enumerate() {
            out[i + j] = f.add(&out[i + j], &f.mul(x, y));
        }
    }
    trim(&mut out);
    out
}

pub fn add(f: &Fld, a: &Poly, b: &Poly) -> Poly {
    let mut out = vec![N::zero(); a.len().max(b.len())];
    for (i, o) in out.iter_mut().enumerate() {
        let x = a.get(i).cloned().unwrap_or_default();
        let y = b.get(i).cloned().unwrap_or_default();
        *o = f.add(&x, &y);
    }
    trim(&mut out);
    out
}

pub fn sub(f: &Fld, a: &Poly, b: &Poly) -> Poly {
    let nb: Poly = b.iter().map(|c| f.neg(c)).collect();
    add(f, a, &nb)
}

pub fn scale(f: &Fld, a: &Poly, k: &N) -> Poly {
    let mut out: Poly = a.iter().map(|c| f.mul(c, k)).collect();
    trim(&mut out);
    out
}

/// remainder of a modulo m (m non-zero)
pub fn rem(f: &Fld, a: &Poly, m: &Poly) -> Poly {
    let mut r = a.clone();
    trim(&mut r);
    let dm = deg(m);
    assert!(dm >= 0);
    let lead_inv = f.inv(m.last().unwrap()).expect("leading coefficient invertible");
    while deg(&r) >= dm {
        let k = f.mul(r.last().unwrap(), &lead_inv);
        let shift = (deg(&r) - dm) as usize;
        for (i, c) in m.iter().enumerate() {
            r[shift + i] = f.sub(&r[shift + i], &f.mul(&k, c));
        }
        trim(&mut r);
    }
    r
}

pub fn monic(f: &Fld, a: &Poly) -> Poly {
    match a.last() {
        None => vec![],
        Some(l) => scale(f, a, &f.inv(l).unwrap()),
    }
}

pub fn gcd(f: &Fld, a: &Poly, b: &Poly) -> Poly {
    let (mut a, mut b) = (a.clone(), b.clone());
    trim(&mut a);
    trim(&mut b);
    while !b.is_empty() {
        let r = rem(f, &a, &b);
        a = b;
        b = r;
    }
    monic(f, &a)
}

/// base^e modulo m
pub fn powmod(f: &Fld, base: &Poly, e: &N, m: &Poly) -> Poly {
    let mut acc: Poly = vec![N::one()];
    let b = rem(f, base, m);
    for i in (0..e.bits()).rev() {
        acc = rem(f, &mul(f, &acc, &acc), m);
        if e.bit(i) {
            acc = rem(f, &mul(f, &acc, &b), m);
        }
    }
    acc
}

/// exact quotient a / b (b divides a)
fn div_exact(f: &Fld, a: &Poly, b: &Poly) -> Poly {
    let mut r = a.clone();
    trim(&mut r);
    let db = deg(b);
    let lead_inv = f.inv(b.last().unwrap()).unwrap();
    let mut q = vec![N::zero(); (deg(&r) - db + 1).max(0) as usize];
    while deg(&r) >= db {
        let k = f.mul(r.last().unwrap(), &lead_inv);
        let shift = (deg(&r) - db) as usize;
        q[shift] = k.clone();
        for (i, c) in b.iter().enumerate() {
            r[shift + i] = f.sub(&r[shift + i], &f.mul(&k, c));
        }
        trim(&mut r);
    }
    debug_assert!(r.is_empty());
    q
}

/// All distinct roots in the field of a non-zero polynomial, in ascending order.
pub fn roots(f: &Fld, p: &Poly) -> Vec<N> {
    let mut p = p.clone();
    trim(&mut p);
    if deg(&p) <= 0 {
        return vec![];
    }
    let mut out = Vec::new();
    // factor x out (root 0), so that the splitting below may assume non-zero roots
    while p.first().map_or(false, |c| c.is_zero()) {
        if !out.contains(&N::zero()) {
            out.push(N::zero());
        }
        p.remove(0);
    }
    if deg(&p) >= 1 {
        // the product of the distinct linear factors: gcd(x^q - x, p)
        let x: Poly = vec![N::zero(), N::one()];
        let xq = powmod(f, &x, &f.m, &p);
        let g = gcd(f, &sub(f, &xq, &x), &p);
        split(f, &g, 1, &mut out);
    }
    out.sort();
    out.dedup();
    out
}

/// g is monic, square-free and a product of linear factors with non-zero roots
fn split(f: &Fld, g: &Poly, mut shift: u64, out: &mut Vec<N>) {
    match deg(g) {
        d if d <= 0 => {}
        1 => out.push(f.neg(&g[0])),
        2 => {
            // x^2 + bx + c: roots (-b +- sqrt(b^2 - 4c)) / 2
            let disc = f.sub(&f.sq(&g[1]), &f.mul(&N::from(4u32), &g[0]));
            let s = f.sqrt(&disc).expect("split polynomial has its roots in the field");
            let half = f.inv(&N::from(2u32)).unwrap();
            out.push(f.mul(&f.sub(&s, &g[1]), &half));
            out.push(f.mul(&f.sub(&f.neg(&s), &g[1]), &half));
        }
        _ => {
            let e = (&f.m - 1u32) >> 1;
            loop {
                // gcd((x + shift)^((q-1)/2) - 1, g) separates roots by the quadratic character of root + shift
                let base: Poly = vec![N::from(shift), N::one()];
                shift += 1;
                let h = powmod(f, &base, &e, g);
                let h1 = sub(f, &h, &vec![N::one()]);
                let d = gcd(f, &h1, g);
                if deg(&d) > 0 && deg(&d) < deg(g) {
                    let other = monic(f, &div_exact(f, g, &d));
                    split(f, &d, shift, out);
                    split(f, &other, shift, out);
                    return;
                }
                assert!(shift < 200, "equal-degree splitting did not separate the roots");
            }
        }
    }
}

#[cfg(test)]
mod tests {
    use super::*;
    use crate::refmodel::Q;
    #[test]
    fn finds_planted_roots() {
        let f = &*Q;
        let rs = [N::from(3u32), &f.m - 5u32, N::from(123456789u64), N::zero()];
        let mut p: Poly = vec![N::from(7u32)];
        for r in &rs {
            p = mul(f, &p, &vec![f.neg(r), N::one()]);
        }
        // times an irreducible quadratic x^2 - zeta-ish non-residue
        let mut found = roots(f, &p);
        found.sort();
        let mut want = rs.to_vec();
        want.sort();
        assert_eq!(found, want);
    }
}
