//! Reference model: big-integer arithmetic for the three fields, the affine
//! twisted-Edwards group law and the *unoptimised* encode / decode / Elligator
//! specifications (a port of `Decaf_1_1_Point.{encodeSpec,decodeSpec,elligatorSpec}`
//! from `ristretto.sage`, see DESIGN.md §3 and refmodel/spec.py).
//!
//! Shares no code and no constants with the library under test.

use num_bigint::BigUint;
use num_traits::{One, Zero};
use once_cell::sync::Lazy;

pub type N = BigUint;

pub mod poly;

pub fn n(x: u64) -> N {
    N::from(x)
}
pub fn hex(s: &str) -> N {
    N::parse_bytes(s.as_bytes(), 16).expect("hex literal")
}
pub fn dec(s: &str) -> N {
    N::parse_bytes(s.as_bytes(), 10).expect("decimal literal")
}

/// A prime field, described by its modulus only.
pub struct Fld {
    pub name: &'static str,
    pub m: N,
    pub bits: u32,
    pub nbytes: usize,
    pub two_adicity: u32,
    pub trace: N,
    /// a fixed quadratic non-residue, found by search at start-up (smallest one)
    pub nonresidue: N,
}

impl Fld {
    pub fn new(name: &'static str, m: N) -> Fld {
        let bits = m.bits() as u32;
        let nbytes = ((bits + 7) / 8) as usize;
        let mut trace = &m - 1u32;
        let mut two_adicity = 0;
        while (&trace & n(1)).is_zero() {
            trace >>= 1;
            two_adicity += 1;
        }
        let mut f = Fld { name, m, bits, nbytes, two_adicity, trace, nonresidue: n(0) };
        let mut c = n(2);
        while f.is_square(&c) {
            c += 1u32;
        }
        f.nonresidue = c;
        f
    }
    pub fn red(&self, a: &N) -> N {
        a % &self.m
    }
    pub fn add(&self, a: &N, b: &N) -> N {
        (a + b) % &self.m
    }
    pub fn sub(&self, a: &N, b: &N) -> N {
        ((a + &self.m) - (b % &self.m)) % &self.m
    }
    pub fn neg(&self, a: &N) -> N {
        (&self.m - (a % &self.m)) % &self.m
    }
    pub fn mul(&self, a: &N, b: &N) -> N {
        (a * b) % &self.m
    }
    pub fn sq(&self, a: &N) -> N {
        (a * a) % &self.m
    }
    pub fn pow(&self, a: &N, e: &N) -> N {
        a.modpow(e, &self.m)
    }
    pub fn inv(&self, a: &N) -> Option<N> {
        let a = a % &self.m;
        if a.is_zero() {
            None
        } else {
            Some(a.modpow(&(&self.m - 2u32), &self.m))
        }
    }
    /// a / b; panics on b = 0 (callers exclude it)
    pub fn div(&self, a: &N, b: &N) -> N {
        self.mul(a, &self.inv(b).expect("model division by zero"))
    }
    /// Euler's criterion; zero counts as a square.
    pub fn is_square(&self, a: &N) -> bool {
        let a = a % &self.m;
        a.is_zero() || a.modpow(&((&self.m - 1u32) >> 1), &self.m).is_one()
    }
    /// -1, 0, 1
    pub fn legendre(&self, a: &N) -> i32 {
        let a = a % &self.m;
        if a.is_zero() {
            0
        } else if a.modpow(&((&self.m - 1u32) >> 1), &self.m).is_one() {
            1
        } else {
            -1
        }
    }
    /// Textbook Tonelli–Shanks, any root; None for non-squares.
    pub fn sqrt(&self, a: &N) -> Option<N> {
        let a = a % &self.m;
        if a.is_zero() {
            return Some(a);
        }
        if !self.is_square(&a) {
            return None;
        }
        let t = &self.trace;
        let mut c = self.pow(&self.nonresidue, t);
        let mut r = self.pow(&a, &((t + 1u32) >> 1));
        let mut tt = self.pow(&a, t);
        let mut mm = self.two_adicity;
        while !tt.is_one() {
            let mut i = 0;
            let mut t2 = tt.clone();
            while !t2.is_one() {
                t2 = self.sq(&t2);
                i += 1;
            }
            let b = self.pow(&c, &(N::one() << (mm - i - 1)));
            r = self.mul(&r, &b);
            c = self.sq(&b);
            tt = self.mul(&tt, &c);
            mm = i;
        }
        debug_assert_eq!(self.sq(&r), a);
        Some(r)
    }
    pub fn from_le(&self, b: &[u8]) -> N {
        N::from_bytes_le(b)
    }
    /// canonical little-endian form, `nbytes` long
    pub fn to_le(&self, a: &N) -> Vec<u8> {
        let mut v = (a % &self.m).to_bytes_le();
        v.resize(self.nbytes, 0);
        v
    }
}

pub static Q: Lazy<Fld> = Lazy::new(|| {
    Fld::new("Fq", hex("12ab655e9a2ca55660b44d1e5c37b00159aa76fed00000010a11800000000001"))
});
pub static R: Lazy<Fld> = Lazy::new(|| {
    Fld::new("Fr", dec("2111115437357092606062206234695386632838870926408408195193685246394721360383"))
});
pub static P: Lazy<Fld> = Lazy::new(|| {
    Fld::new(
        "Fp",
        hex("01ae3a4617c510eac63b05c06ca1493b1a22d9f300f5138f1ef3622fba094800170b5d44300000008508c00000000001"),
    )
});

pub fn le32(a: &N) -> [u8; 32] {
    let mut v = a.to_bytes_le();
    assert!(v.len() <= 32, "value does not fit 32 bytes");
    v.resize(32, 0);
    let mut out = [0u8; 32];
    out.copy_from_slice(&v);
    out
}

// ---------------------------------------------------------------------------------------
// Curve
// ---------------------------------------------------------------------------------------

/// Affine point on -x^2 + y^2 = 1 + d x^2 y^2 over Fq.
#[derive(Clone, Debug, PartialEq, Eq, Hash)]
pub struct Pt {
    pub x: N,
    pub y: N,
}

pub struct Curve {
    pub a: N,
    pub d: N,
    pub zeta: N,
    /// a - 2d
    pub a_m_2d: N,
}

pub static CURVE: Lazy<Curve> = Lazy::new(|| {
    let f = &*Q;
    let a = f.neg(&n(1));
    let d = n(3021);
    let zeta = dec("2841681278031794617739547238867782961338435681360110683443920362658525667816");
    assert!(!f.is_square(&zeta), "zeta must be a non-residue");
    assert!(!f.is_square(&d), "d must be a non-residue (completeness of the addition law)");
    assert!(f.is_square(&a), "a must be a square (completeness of the addition law)");
    let a_m_2d = f.sub(&a, &f.mul(&n(2), &d));
    Curve { a, d, zeta, a_m_2d }
});

#[derive(Debug, Clone, PartialEq, Eq)]
pub struct Invalid;

/// low bit of the canonical integer
pub fn is_neg(x: &N) -> bool {
    (x % &Q.m).bit(0)
}

impl Curve {
    pub fn identity(&self) -> Pt {
        Pt { x: n(0), y: n(1) }
    }
    /// the 2-torsion point (0,-1): the other representative of the identity
    pub fn t2(&self) -> Pt {
        Pt { x: n(0), y: Q.neg(&n(1)) }
    }
    pub fn on_curve(&self, p: &Pt) -> bool {
        let f = &*Q;
        if p.x >= f.m || p.y >= f.m {
            return false;
        }
        let xx = f.sq(&p.x);
        let yy = f.sq(&p.y);
        let lhs = f.add(&f.mul(&self.a, &xx), &yy);
        let rhs = f.add(&n(1), &f.mul(&self.d, &f.mul(&xx, &yy)));
        lhs == rhs
    }
    /// unified affine addition with divisions (QuotientEdwardsPoint.__add__)
    pub fn add(&self, p: &Pt, q: &Pt) -> Pt {
        let f = &*Q;
        let x1y2 = f.mul(&p.x, &q.y);
        let y1x2 = f.mul(&p.y, &q.x);
        let y1y2 = f.mul(&p.y, &q.y);
        let x1x2 = f.mul(&p.x, &q.x);
        let dxy = f.mul(&self.d, &f.mul(&x1x2, &y1y2));
        let x3 = f.div(&f.add(&x1y2, &y1x2), &f.add(&n(1), &dxy));
        let y3 = f.div(&f.sub(&y1y2, &f.mul(&self.a, &x1x2)), &f.sub(&n(1), &dxy));
        Pt { x: x3, y: y3 }
    }
    pub fn neg(&self, p: &Pt) -> Pt {
        Pt { x: Q.neg(&p.x), y: p.y.clone() }
    }
    pub fn sub(&self, p: &Pt, q: &Pt) -> Pt {
        self.add(p, &self.neg(q))
    }
    pub fn dbl(&self, p: &Pt) -> Pt {
        self.add(p, p)
    }
    /// the other curve point of the same decaf element: P + (0,-1) = (-x,-y)
    pub fn other_rep(&self, p: &Pt) -> Pt {
        Pt { x: Q.neg(&p.x), y: Q.neg(&p.y) }
    }
    /// slow reference scalar multiplication: affine double-and-add
    pub fn mul_affine(&self, k: &N, p: &Pt) -> Pt {
        let mut acc = self.identity();
        for i in (0..k.bits()).rev() {
            acc = self.dbl(&acc);
            if k.bit(i) {
                acc = self.add(&acc, p);
            }
        }
        acc
    }
    /// fast scalar multiplication: projective (X:Y:Z), add-2008-bbjlp, one inversion at the end.
    pub fn mul(&self, k: &N, p: &Pt) -> Pt {
        let f = &*Q;
        let padd = |p1: &(N, N, N), p2: &(N, N, N)| -> (N, N, N) {
            let (x1, y1, z1) = p1;
            let (x2, y2, z2) = p2;
            let a = f.mul(z1, z2);
            let b = f.sq(&a);
            let c = f.mul(x1, x2);
            let d = f.mul(y1, y2);
            let e = f.mul(&self.d, &f.mul(&c, &d));
            let ff = f.sub(&b, &e);
            let g = f.add(&b, &e);
            let t = f.sub(&f.sub(&f.mul(&f.add(x1, y1), &f.add(x2, y2)), &c), &d);
            let x3 = f.mul(&a, &f.mul(&ff, &t));
            let y3 = f.mul(&a, &f.mul(&g, &f.sub(&d, &f.mul(&self.a, &c))));
            let z3 = f.mul(&ff, &g);
            (x3, y3, z3)
        };
        let base = (p.x.clone(), p.y.clone(), n(1));
        let mut acc = (n(0), n(1), n(1));
        for i in (0..k.bits()).rev() {
            acc = padd(&acc, &acc);
            if k.bit(i) {
                acc = padd(&acc, &base);
            }
        }
        let zi = f.inv(&acc.2).expect("complete addition law: Z != 0");
        Pt { x: f.mul(&acc.0, &zi), y: f.mul(&acc.1, &zi) }
    }
    /// decaf equality of two curve points: x1*y2 == x2*y1
    pub fn eq_decaf(&self, p: &Pt, q: &Pt) -> bool {
        Q.mul(&p.x, &q.y) == Q.mul(&q.x, &p.y)
    }
    /// `q` is one of the two curve points representing the element of the valid point `p`
    pub fn same_element(&self, p: &Pt, q: &Pt) -> bool {
        *q == *p || *q == self.other_rep(p)
    }
    pub fn is_identity_element(&self, p: &Pt) -> bool {
        *p == self.identity() || *p == self.t2()
    }
    /// on the curve and in 2E, i.e. r*P is (0,1) or (0,-1)
    pub fn valid(&self, p: &Pt) -> bool {
        self.on_curve(p) && self.is_identity_element(&self.mul(&R.m, p))
    }

    fn xsqrt(&self, x: &N) -> Result<N, Invalid> {
        let s = Q.sqrt(x).ok_or(Invalid)?;
        Ok(if is_neg(&s) { Q.neg(&s) } else { s })
    }

    /// encodeSpec
    pub fn encode_spec(&self, p: &Pt) -> N {
        let f = &*Q;
        if p.x.is_zero() || p.y.is_zero() {
            return n(0);
        }
        let sr = self
            .xsqrt(&f.sub(&n(1), &f.mul(&self.a, &f.sq(&p.x))))
            .expect("1 - a x^2 is a square for points of 2E");
        let altx = f.div(&f.mul(&p.x, &p.y), &sr);
        let s = if is_neg(&altx) {
            f.div(&f.add(&n(1), &sr), &p.x)
        } else {
            f.div(&f.sub(&n(1), &sr), &p.x)
        };
        if is_neg(&s) {
            f.neg(&s)
        } else {
            s
        }
    }
    pub fn encode_bytes(&self, p: &Pt) -> [u8; 32] {
        le32(&self.encode_spec(p))
    }
    /// decodeSpec on an integer 0 <= s < 2^256 (the little-endian value of the 32 bytes)
    pub fn decode_int(&self, s: &N) -> Result<Pt, Invalid> {
        let f = &*Q;
        if *s >= f.m || is_neg(s) {
            return Err(Invalid);
        }
        if s.is_zero() {
            return Ok(self.identity());
        }
        let ss = f.sq(s);
        let aa = f.sq(&self.a);
        let disc = f.add(
            &f.add(&f.mul(&aa, &f.sq(&ss)), &f.mul(&f.mul(&n(2), &self.a_m_2d), &ss)),
            &n(1),
        );
        let mut t = self.xsqrt(&disc)?;
        if t.is_zero() {
            return Err(Invalid);
        }
        if is_neg(&f.div(&f.mul(&n(2), s), &t)) {
            t = f.neg(&t);
        }
        let one_p_ass = f.add(&n(1), &f.mul(&self.a, &ss));
        if one_p_ass.is_zero() {
            return Err(Invalid);
        }
        let x = f.div(&f.mul(&n(2), s), &one_p_ass);
        let y = f.div(&f.sub(&n(1), &f.mul(&self.a, &ss)), &t);
        let p = Pt { x, y };
        if !self.on_curve(&p) {
            return Err(Invalid);
        }
        Ok(p)
    }
    pub fn decode_spec(&self, bytes: &[u8; 32]) -> Result<Pt, Invalid> {
        self.decode_int(&N::from_bytes_le(bytes))
    }
    fn from_jq(&self, s: &N, t: &N) -> Pt {
        let f = &*Q;
        if s.is_zero() {
            return self.identity();
        }
        let ss = f.sq(s);
        Pt {
            x: f.div(&f.mul(&n(2), s), &f.add(&n(1), &f.mul(&self.a, &ss))),
            y: f.div(&f.sub(&n(1), &f.mul(&self.a, &ss)), t),
        }
    }
    /// elligatorSpec; also reports which branch (true = n1 square) was taken
    pub fn elligator_spec_branch(&self, r0: &N) -> (Pt, Option<bool>) {
        let f = &*Q;
        let r = f.mul(&self.zeta, &f.sq(r0));
        let d_m_a = f.sub(&self.d, &self.a);
        let den = f.mul(
            &f.sub(&f.mul(&self.d, &r), &d_m_a),
            &f.sub(&f.mul(&d_m_a, &r), &self.d),
        );
        if den.is_zero() {
            return (self.identity(), None);
        }
        let n1 = f.div(&f.mul(&f.add(&r, &n(1)), &self.a_m_2d), &den);
        let n2 = f.mul(&r, &n1);
        let k = f.div(&f.sq(&self.a_m_2d), &den);
        let r_m_1 = f.sub(&r, &n(1));
        if f.is_square(&n1) {
            let s = self.xsqrt(&n1).unwrap();
            let t = f.sub(&f.neg(&f.mul(&r_m_1, &k)), &n(1));
            (self.from_jq(&s, &t), Some(true))
        } else {
            let s = f.neg(&self.xsqrt(&n2).expect("n2 square when n1 is not"));
            let t = f.sub(&f.mul(&f.mul(&r, &r_m_1), &k), &n(1));
            (self.from_jq(&s, &t), Some(false))
        }
    }
    /// Names of the intermediate values of the Elligator map that `elligator_preimages` can aim at.
    pub const ELL_SITES: [&'static str; 9] = ["r", "d*r-(d-a)", "(d-a)*r-d", "den", "num", "num*den", "r-1", "n1=num/den", "n2=r*n1"];
    /// Field elements r0 for which the named intermediate value of the Elligator map equals `t`
    /// (both signs of each solution; empty when the defining polynomial has no suitable root).
    pub fn elligator_preimages(&self, site: usize, t: &N) -> Vec<N> {
        use poly::*;
        let f = &*Q;
        let d_m_a = f.sub(&self.d, &self.a);
        let r: Poly = vec![n(0), n(1)];
        let a1: Poly = vec![f.neg(&d_m_a), self.d.clone()];
        let a2: Poly = vec![f.neg(&self.d), d_m_a.clone()];
        let den = mul(f, &a1, &a2);
        let num: Poly = vec![self.a_m_2d.clone(), self.a_m_2d.clone()];
        let tt: Poly = vec![t.clone()];
        let p = match site {
            0 => sub(f, &r, &tt),
            1 => sub(f, &a1, &tt),
            2 => sub(f, &a2, &tt),
            3 => sub(f, &den, &tt),
            4 => sub(f, &num, &tt),
            5 => sub(f, &mul(f, &num, &den), &tt),
            6 => sub(f, &r, &vec![f.add(t, &n(1))]),
            7 => sub(f, &num, &scale(f, &den, t)),
            _ => sub(f, &mul(f, &r, &num), &scale(f, &den, t)),
        };
        let zinv = f.inv(&self.zeta).unwrap();
        let mut out = Vec::new();
        for root in roots(f, &p) {
            if let Some(r0) = f.sqrt(&f.mul(&root, &zinv)) {
                out.push(f.neg(&r0));
                out.push(r0);
            }
        }
        out.sort();
        out.dedup();
        out
    }
    /// Names of the intermediate values of decoding that `decode_preimages` can aim at.
    pub const DEC_SITES: [&'static str; 6] = ["s^2", "u1=1-s^2", "u2=u1^2-4d*s^2", "u2*u1^2", "1+s^2", "2*s*u1 (squared)"];
    /// Field elements s (both signs) for which the named intermediate value of decoding equals `t`.
    pub fn decode_preimages(&self, site: usize, t: &N) -> Vec<N> {
        use poly::*;
        let f = &*Q;
        // polynomials in w = s^2 (a = -1)
        let w: Poly = vec![n(0), n(1)];
        let u1: Poly = vec![n(1), f.neg(&n(1))];
        let d4 = f.mul(&n(4), &self.d);
        let u2 = sub(f, &mul(f, &u1, &u1), &vec![n(0), d4]);
        let tt: Poly = vec![t.clone()];
        let p = match site {
            0 => sub(f, &w, &tt),
            1 => sub(f, &u1, &tt),
            2 => sub(f, &u2, &tt),
            3 => sub(f, &mul(f, &u2, &mul(f, &u1, &u1)), &tt),
            4 => sub(f, &vec![n(1), n(1)], &tt),
            // (2 s u1)^2 = 4 w u1^2 = t^2
            _ => sub(f, &scale(f, &mul(f, &w, &mul(f, &u1, &u1)), &n(4)), &vec![f.sq(t)]),
        };
        let mut out = Vec::new();
        for root in roots(f, &p) {
            if let Some(s) = f.sqrt(&root) {
                out.push(f.neg(&s));
                out.push(s);
            }
        }
        out.sort();
        out.dedup();
        out
    }
    pub fn elligator_spec(&self, r0: &N) -> Pt {
        self.elligator_spec_branch(r0).0
    }
    /// the conventional generator: decode(8)
    pub fn generator(&self) -> Pt {
        self.decode_int(&n(8)).expect("8 decodes")
    }
}

pub static GEN: Lazy<Pt> = Lazy::new(|| CURVE.generator());

/// Deterministic vectors of the model's specification functions as JSON lines
/// (cross-checked against the Python transcription refmodel/spec.py by setup.sh).
pub fn print_spec_vectors() {
    let c = &*CURVE;
    let f = &*Q;
    // a simple deterministic sequence of field elements
    let mut x = hex("1234567890abcdef1234567890abcdef1234567890abcdef1234567890abcdef") % &f.m;
    let mut next = || {
        x = (f.sq(&x) + 0x9e3779b9u32) % &f.m;
        x.clone()
    };
    let mut inputs: Vec<N> = vec![n(0), n(1), n(2), n(3), n(4), n(8), &f.m - 1u32, &f.m - 2u32, (&f.m - 1u32) >> 1, (&f.m + 1u32) >> 1, f.m.clone(), &f.m + 1u32];
    for _ in 0..400 {
        inputs.push(next());
    }
    let mut pts: Vec<Pt> = Vec::new();
    for r0 in &inputs {
        let r0 = r0 % &f.m;
        let p = c.elligator_spec(&r0);
        println!("{{\"kind\":\"elligator\",\"r0\":\"{:x}\",\"out\":\"{:x},{:x}\"}}", r0, p.x, p.y);
        pts.push(p);
    }
    let g = c.generator();
    let mut acc = c.identity();
    for _ in 0..40 {
        pts.push(acc.clone());
        pts.push(c.other_rep(&acc));
        acc = c.add(&acc, &g);
    }
    for (i, p) in pts.iter().enumerate() {
        let s = c.encode_spec(p);
        println!("{{\"kind\":\"encode\",\"x\":\"{:x}\",\"y\":\"{:x}\",\"out\":\"{:x}\"}}", p.x, p.y, s);
        // decode of the encoding and of near misses
        for cand in [s.clone(), &s + 1u32, (&f.m - &s) % &f.m, &s + &f.m] {
            let out = match c.decode_int(&cand) {
                Ok(p) => format!("{:x},{:x}", p.x, p.y),
                Err(_) => "invalid".to_string(),
            };
            println!("{{\"kind\":\"decode\",\"s\":\"{:x}\",\"out\":\"{}\"}}", cand, out);
        }
        let q2 = &pts[(i * 7 + 3) % pts.len()];
        let sum = c.add(p, q2);
        println!("{{\"kind\":\"add\",\"x1\":\"{:x}\",\"y1\":\"{:x}\",\"x2\":\"{:x}\",\"y2\":\"{:x}\",\"out\":\"{:x},{:x}\"}}", p.x, p.y, q2.x, q2.y, sum.x, sum.y);
    }
    for s in &inputs {
        let out = match c.decode_int(s) {
            Ok(p) => format!("{:x},{:x}", p.x, p.y),
            Err(_) => "invalid".to_string(),
        };
        println!("{{\"kind\":\"decode\",\"s\":\"{:x}\",\"out\":\"{}\"}}", s, out);
    }
    // internal consistency of the model itself
    let k = dec("123456789012345678901234567890123456789");
    assert_eq!(c.mul(&k, &g), c.mul_affine(&k, &g), "projective and affine scalar multiplication disagree");
    assert_eq!(c.mul(&R.m, &g), c.t2(), "r*G must be (0,-1)");
    assert!(c.valid(&g));
}

#[cfg(test)]
mod tests {
    use super::*;

    #[test]
    fn moduli_from_bls_parameter() {
        // BLS12-377: x = 0x8508c00000000001, q = x^4 - x^2 + 1, p = (x-1)^2 q / 3 + x
        let x = hex("8508c00000000001");
        let q = &x * &x * &x * &x - &x * &x + 1u32;
        assert_eq!(q, Q.m);
        let p = (&x - 1u32) * (&x - 1u32) * &q / 3u32 + &x;
        assert_eq!(p, P.m);
        // r: prime (Fermat, bases 2,3,5), and 4r within the Hasse interval of q
        for b in [2u32, 3, 5] {
            assert!(N::from(b).modpow(&(&R.m - 1u32), &R.m).is_one());
        }
        assert_eq!(R.m, hex("04aad957a68b2955982d1347970dec005293a3afc43c8afeb95aee9ac33fd9ff"));
        let four_r = &R.m * 4u32;
        let qp1 = &Q.m + 1u32;
        let diff = if four_r > qp1 { &four_r - &qp1 } else { &qp1 - &four_r };
        assert!(&diff * &diff <= &Q.m * 4u32);
    }

    #[test]
    fn fields_sane() {
        assert_eq!(Q.bits, 253);
        assert_eq!(R.bits, 251);
        assert_eq!(P.bits, 377);
        assert_eq!(Q.two_adicity, 47);
        assert_eq!(R.two_adicity, 1);
        assert_eq!(P.two_adicity, 46);
    }

    #[test]
    fn mul_agrees_with_affine() {
        let c = &*CURVE;
        let g = c.generator();
        assert!(c.on_curve(&g));
        let mut k = dec("123456789012345678901234567890123456789");
        for _ in 0..20 {
            assert_eq!(c.mul(&k, &g), c.mul_affine(&k, &g));
            k = (&k * &k + 7u32) % &R.m;
        }
        assert!(c.valid(&g));
        assert_eq!(c.mul(&R.m, &g), c.t2());
    }

    #[test]
    fn roundtrip() {
        let c = &*CURVE;
        let g = c.generator();
        let mut p = g.clone();
        for _ in 0..50 {
            let s = c.encode_spec(&p);
            let back = c.decode_int(&s).unwrap();
            assert!(c.same_element(&p, &back));
            assert_eq!(c.encode_spec(&c.other_rep(&p)), s);
            p = c.add(&p, &g);
        }
        assert_eq!(c.encode_spec(&c.identity()), n(0));
        assert_eq!(c.encode_spec(&c.t2()), n(0));
    }
}
