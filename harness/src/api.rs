//! Thin, uniform access to the two configurations of the library under test
//! (`Ark` = default features + r1cs, `Min` = --no-default-features), both linked
//! into this process straight from the tree under test.

use crate::refmodel::{le32, Pt, N, P, Q, R};
use num_traits::Zero;

pub mod ark {
    pub use decaf377::{Element, Encoding, EncodingError, Fp, Fq, Fr, ZETA};
    /// the pairing engine the crate exports (Groth16 over its own fields)
    pub type Fq2Engine = decaf377::Bls12_377;
}
pub mod min {
    pub use decaf377_min::{Element, Encoding, EncodingError, Fp, Fq, Fr, ZETA};
}

#[derive(Debug, Clone, Copy, PartialEq, Eq)]
pub enum DecErr {
    InvalidEncoding,
    InvalidSliceLength,
    /// stream deserialisers: any arkworks SerializationError
    Other,
    /// the entry point panicked (other than a documented `unimplemented!`)
    Panicked,
}

impl From<ark::EncodingError> for DecErr {
    fn from(e: ark::EncodingError) -> Self {
        match e {
            ark::EncodingError::InvalidEncoding => DecErr::InvalidEncoding,
            ark::EncodingError::InvalidSliceLength => DecErr::InvalidSliceLength,
        }
    }
}
impl From<min::EncodingError> for DecErr {
    fn from(e: min::EncodingError) -> Self {
        match e {
            min::EncodingError::InvalidEncoding => DecErr::InvalidEncoding,
            min::EncodingError::InvalidSliceLength => DecErr::InvalidSliceLength,
        }
    }
}

fn le48(a: &N) -> [u8; 48] {
    let mut v = a.to_bytes_le();
    assert!(v.len() <= 48);
    v.resize(48, 0);
    let mut out = [0u8; 48];
    out.copy_from_slice(&v);
    out
}

/// Conversions between model integers and library field elements. They go through
/// `from_bytes_checked` / `to_bytes_le`, whose correctness is itself decided by C10/C11.
macro_rules! field_conv {
    ($modname:ident, $krate:ident) => {
        pub mod $modname {
            use super::*;
            pub fn fq(x: &N) -> $krate::Fq {
                debug_assert!(*x < Q.m);
                $krate::Fq::from_bytes_checked(&le32(x)).expect("canonical Fq bytes")
            }
            pub fn fr(x: &N) -> $krate::Fr {
                debug_assert!(*x < R.m);
                $krate::Fr::from_bytes_checked(&le32(x)).expect("canonical Fr bytes")
            }
            pub fn fp(x: &N) -> $krate::Fp {
                debug_assert!(*x < P.m);
                $krate::Fp::from_bytes_checked(&le48(x)).expect("canonical Fp bytes")
            }
            pub fn fq_int(x: &$krate::Fq) -> N {
                N::from_bytes_le(&x.to_bytes_le())
            }
            pub fn fr_int(x: &$krate::Fr) -> N {
                N::from_bytes_le(&x.to_bytes_le())
            }
            pub fn fp_int(x: &$krate::Fp) -> N {
                N::from_bytes_le(&x.to_bytes_le())
            }
        }
    };
}
field_conv!(arkf, decaf377);
field_conv!(minf, decaf377_min);

pub trait Backend: 'static + Send + Sync {
    const NAME: &'static str;
    const IS_ARK: bool;
    type E: Copy + Send + Sync + 'static;
    fn identity() -> Self::E;
    fn default_elem() -> Self::E;
    fn generator() -> Self::E;
    fn decode(b: &[u8; 32]) -> Result<Self::E, DecErr>;
    fn encode(e: &Self::E) -> [u8; 32];
    fn encode_field(e: &Self::E) -> N;
    fn elligator(r0: &N) -> Self::E;
    fn hash2(r1: &N, r2: &N) -> Self::E;
    fn add(a: &Self::E, b: &Self::E) -> Self::E;
    fn sub(a: &Self::E, b: &Self::E) -> Self::E;
    fn neg(a: &Self::E) -> Self::E;
    fn double(a: &Self::E) -> Self::E;
    /// k < r
    fn mul_fr(a: &Self::E, k: &N) -> Self::E;
    fn mul_limbs(a: &Self::E, limbs: &[u64]) -> Self::E;
    /// constant-time integer ladder where the configuration has one
    fn mul_limbs_ct(a: &Self::E, limbs: &[u64]) -> Self::E;
    /// constant-time selection where the configuration has one: `b` if choice else `a`
    fn select(a: &Self::E, b: &Self::E, choice: bool) -> Self::E;
    fn affine_roundtrip(a: &Self::E) -> Self::E;
    /// the configuration's own validity predicates (ark_serialize::Valid::check / batch_check on the
    /// element and on its affine form) accept this element; configurations without one say true
    fn self_check(a: &Self::E) -> Result<(), String>;
    /// the element's other public value form (ark: AffinePoint) survives its own serialisation round trip under
    /// its own equality; configurations without such a form say Ok
    fn other_form_roundtrip(a: &Self::E) -> Result<(), String>;
    /// the `i`-th operator / method / trait form of the configuration that computes `op`
    /// (C04's catalogue of forms); a plain fallback when the configuration has none
    fn op_form(op: crate::props::c04::Op, i: u8, a: &Self::E, b: &Self::E, c: &Self::E) -> Self::E;
    /// internal extended coordinates (X, Y, Z, T) through the read-only hook
    fn coords(e: &Self::E) -> [N; 4];
    fn eq(a: &Self::E, b: &Self::E) -> bool;
    fn is_identity(a: &Self::E) -> bool;
}

pub struct Ark;
pub struct Min;

impl Backend for Ark {
    const NAME: &'static str = "ark";
    const IS_ARK: bool = true;
    type E = ark::Element;
    fn identity() -> Self::E {
        ark::Element::IDENTITY
    }
    fn default_elem() -> Self::E {
        ark::Element::default()
    }
    fn generator() -> Self::E {
        ark::Element::GENERATOR
    }
    fn decode(b: &[u8; 32]) -> Result<Self::E, DecErr> {
        ark::Encoding(*b).vartime_decompress().map_err(Into::into)
    }
    fn encode(e: &Self::E) -> [u8; 32] {
        e.vartime_compress().0
    }
    fn encode_field(e: &Self::E) -> N {
        arkf::fq_int(&e.vartime_compress_to_field())
    }
    fn elligator(r0: &N) -> Self::E {
        ark::Element::encode_to_curve(&arkf::fq(r0))
    }
    fn hash2(r1: &N, r2: &N) -> Self::E {
        ark::Element::hash_to_curve(&arkf::fq(r1), &arkf::fq(r2))
    }
    fn add(a: &Self::E, b: &Self::E) -> Self::E {
        a + b
    }
    fn sub(a: &Self::E, b: &Self::E) -> Self::E {
        a - b
    }
    fn neg(a: &Self::E) -> Self::E {
        -*a
    }
    fn double(a: &Self::E) -> Self::E {
        use ark_ec::Group;
        a.double()
    }
    fn mul_fr(a: &Self::E, k: &N) -> Self::E {
        a * arkf::fr(k)
    }
    fn mul_limbs(a: &Self::E, limbs: &[u64]) -> Self::E {
        use ark_ec::Group;
        a.mul_bigint(limbs)
    }
    fn mul_limbs_ct(a: &Self::E, limbs: &[u64]) -> Self::E {
        use ark_ec::Group;
        a.mul_bigint(limbs)
    }
    fn select(a: &Self::E, b: &Self::E, choice: bool) -> Self::E {
        if choice {
            *b
        } else {
            *a
        }
    }
    fn op_form(op: crate::props::c04::Op, i: u8, a: &Self::E, b: &Self::E, c: &Self::E) -> Self::E {
        use crate::props::c04::{apply_ark, forms_of};
        let forms: Vec<_> = forms_of(crate::props::common::Bk::Ark).into_iter().filter(|f| f.op() == op).collect();
        apply_ark(forms[i as usize % forms.len()], *a, *b, *c)
    }
    fn other_form_roundtrip(a: &Self::E) -> Result<(), String> {
        use ark_ec::CurveGroup;
        use ark_serialize::{CanonicalDeserialize, CanonicalSerialize};
        type AA = <ark::Element as CurveGroup>::Affine;
        let aff: AA = a.into_affine();
        let mut bytes = Vec::new();
        aff.serialize_compressed(&mut bytes).map_err(|e| format!("AffinePoint::serialize_compressed: {e:?}"))?;
        let back = AA::deserialize_compressed(&bytes[..]).map_err(|e| format!("AffinePoint::deserialize_compressed of its own serialisation: {e:?}"))?;
        if !(back == aff) || !(aff == back) || back != aff {
            return Err("AffinePoint: deserialize(serialize(A)) != A under AffinePoint's own equality".into());
        }
        let e2: ark::Element = back.into();
        if e2 != *a {
            return Err("AffinePoint: deserialize(serialize(A)) converts to a different element".into());
        }
        Ok(())
    }
    fn self_check(a: &Self::E) -> Result<(), String> {
        use ark_ec::CurveGroup;
        use ark_serialize::Valid;
        a.check().map_err(|e| format!("Valid::check(Element) = {e:?}"))?;
        let aff = a.into_affine();
        aff.check().map_err(|e| format!("Valid::check(AffinePoint) = {e:?}"))?;
        <ark::Element as Valid>::batch_check([*a, *a + ark::Element::GENERATOR].iter()).map_err(|e| format!("Valid::batch_check(Element) = {e:?}"))?;
        ark::Encoding(a.vartime_compress().0).check().map_err(|e| format!("Valid::check(Encoding) = {e:?}"))?;
        Ok(())
    }
    fn affine_roundtrip(a: &Self::E) -> Self::E {
        use ark_ec::{AffineRepr, CurveGroup, ScalarMul};
        type AA = <ark::Element as CurveGroup>::Affine;
        // every route from Element to AffinePoint and back, chosen by a bit pattern of the element
        let sel = a.verif_xyzt()[0].to_bytes_le()[0] % 6;
        match sel {
            0 => a.into_affine().into_group(),
            1 => ark::Element::from(AA::from(a)),
            2 => ark::Element::from(&AA::from(*a)),
            // batch routes, in a batch that mixes Z = 1 and Z != 1 elements
            3 => ark::Element::normalize_batch(&[ark::Element::GENERATOR, *a, *a + *a])[1].into_group(),
            4 => ark::Element::batch_convert_to_mul_base(&[*a + ark::Element::GENERATOR, *a, ark::Element::IDENTITY])[1].into_group(),
            _ => ark::Element::normalize_batch(&[*a])[0].into(),
        }
    }
    fn coords(e: &Self::E) -> [N; 4] {
        let c = e.verif_xyzt();
        [arkf::fq_int(&c[0]), arkf::fq_int(&c[1]), arkf::fq_int(&c[2]), arkf::fq_int(&c[3])]
    }
    fn eq(a: &Self::E, b: &Self::E) -> bool {
        a == b
    }
    fn is_identity(a: &Self::E) -> bool {
        a.is_identity()
    }
}

impl Backend for Min {
    const NAME: &'static str = "min";
    const IS_ARK: bool = false;
    type E = min::Element;
    fn identity() -> Self::E {
        min::Element::IDENTITY
    }
    fn default_elem() -> Self::E {
        min::Element::IDENTITY
    }
    fn generator() -> Self::E {
        min::Element::GENERATOR
    }
    fn decode(b: &[u8; 32]) -> Result<Self::E, DecErr> {
        min::Encoding(*b).vartime_decompress().map_err(Into::into)
    }
    fn encode(e: &Self::E) -> [u8; 32] {
        e.vartime_compress().0
    }
    fn encode_field(e: &Self::E) -> N {
        minf::fq_int(&e.vartime_compress_to_field())
    }
    fn elligator(r0: &N) -> Self::E {
        min::Element::encode_to_curve(&minf::fq(r0))
    }
    fn hash2(r1: &N, r2: &N) -> Self::E {
        min::Element::hash_to_curve(&minf::fq(r1), &minf::fq(r2))
    }
    fn add(a: &Self::E, b: &Self::E) -> Self::E {
        a + b
    }
    fn sub(a: &Self::E, b: &Self::E) -> Self::E {
        a - b
    }
    fn neg(a: &Self::E) -> Self::E {
        -*a
    }
    fn double(a: &Self::E) -> Self::E {
        a.double()
    }
    fn mul_fr(a: &Self::E, k: &N) -> Self::E {
        a * minf::fr(k)
    }
    fn mul_limbs(a: &Self::E, limbs: &[u64]) -> Self::E {
        a.scalar_mul_vartime(limbs)
    }
    fn mul_limbs_ct(a: &Self::E, limbs: &[u64]) -> Self::E {
        a.scalar_mul(limbs)
    }
    fn select(a: &Self::E, b: &Self::E, choice: bool) -> Self::E {
        use subtle::{Choice, ConditionallySelectable};
        let mut x = min::Element::conditional_select(a, b, Choice::from(choice as u8));
        // the assign / swap forms must agree with select
        let mut y = *a;
        y.conditional_assign(b, Choice::from(choice as u8));
        let (mut p, mut q) = (*a, *b);
        min::Element::conditional_swap(&mut p, &mut q, Choice::from(choice as u8));
        if y.verif_xyzt() != x.verif_xyzt() || p.verif_xyzt() != x.verif_xyzt() {
            // make the disagreement visible to every oracle: an impossible element
            x = min::Element::conditional_select(&x, &(x + min::Element::GENERATOR), Choice::from(1));
        }
        x
    }
    fn op_form(op: crate::props::c04::Op, i: u8, a: &Self::E, b: &Self::E, c: &Self::E) -> Self::E {
        use crate::props::c04::{apply_min, forms_of, Op};
        let forms: Vec<_> = forms_of(crate::props::common::Bk::Min).into_iter().filter(|f| f.op() == op).collect();
        if forms.is_empty() {
            return match op {
                Op::Sum3 => *a + *b + *c,
                Op::Sum2 => *a + *b,
                Op::Sum1 => *a,
                _ => min::Element::IDENTITY,
            };
        }
        apply_min(forms[i as usize % forms.len()], *a, *b, *c)
    }
    fn other_form_roundtrip(_a: &Self::E) -> Result<(), String> {
        Ok(())
    }
    fn self_check(_a: &Self::E) -> Result<(), String> {
        Ok(())
    }
    fn affine_roundtrip(a: &Self::E) -> Self::E {
        *a
    }
    fn coords(e: &Self::E) -> [N; 4] {
        let c = e.verif_xyzt();
        [minf::fq_int(&c[0]), minf::fq_int(&c[1]), minf::fq_int(&c[2]), minf::fq_int(&c[3])]
    }
    fn eq(a: &Self::E, b: &Self::E) -> bool {
        a == b
    }
    fn is_identity(a: &Self::E) -> bool {
        a.is_identity()
    }
}

/// What the hook coordinates denote, judged by the model only.
#[derive(Debug, Clone)]
pub struct Coords {
    pub xyzt: [N; 4],
}

impl Coords {
    pub fn of<B: Backend>(e: &B::E) -> Coords {
        Coords { xyzt: B::coords(e) }
    }
    pub fn z_is_one(&self) -> bool {
        self.xyzt[2] == N::from(1u32)
    }
    /// Affine point (X/Z, Y/Z), or a description of why the coordinates are malformed
    /// (Z = 0, T*Z != X*Y). Being on the curve is checked by the caller against the model point.
    pub fn affine(&self) -> Result<Pt, String> {
        let f = &*Q;
        let [x, y, z, t] = &self.xyzt;
        if z.is_zero() {
            return Err("Z = 0".into());
        }
        if f.mul(t, z) != f.mul(x, y) {
            return Err("T*Z != X*Y".into());
        }
        let zi = f.inv(z).unwrap();
        Ok(Pt { x: f.mul(x, &zi), y: f.mul(y, &zi) })
    }
}

pub fn limbs_of(k: &N) -> Vec<u64> {
    k.to_u64_digits()
}
pub fn int_of_limbs(l: &[u64]) -> N {
    let mut acc = N::zero();
    for (i, w) in l.iter().enumerate() {
        acc += N::from(*w) << (64 * i);
    }
    acc
}
