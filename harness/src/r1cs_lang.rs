//! A small language of gadget applications over a register file of circuit variables,
//! with an interpreter that runs every step both in-circuit (ark-relations
//! `ConstraintSystem`) and natively. Shared by C13 (honest prover: per-step value and
//! satisfaction checks), C14 (adversarial hints: satisfied => outputs equal native) and
//! C15 (shape: matrices independent of the values). DESIGN §5/C13-C15.

use crate::api::{ark, arkf, Ark};
use crate::engine::{Ctx, Failure};
use crate::gen::{self, pick, Num};
use crate::recipe::{self, Recipe};
use crate::refmodel::{N, Q};
use ark_ec::{AffineRepr, CurveGroup, Group};
use ark_r1cs_std::prelude::*;
use ark_r1cs_std::R1CSVar;
use ark_relations::r1cs::{ConstraintSystem, ConstraintSystemRef, OptimizationGoal, SynthesisError, SynthesisMode};
use decaf377::r1cs::fqvar_ext::FqVarExtension;
use decaf377::r1cs::{ElementVar, FqVar};
use proptest::prelude::*;
use serde::{Deserialize, Serialize};
use std::panic::{catch_unwind, AssertUnwindSafe};

pub type AE = ark::Element;
pub type AA = <ark::Element as CurveGroup>::Affine;
pub type Fq = ark::Fq;

pub const NE: usize = 4;
pub const NF: usize = 4;

#[derive(Clone, Copy, Debug, Serialize, Deserialize, PartialEq, Eq, Hash)]
pub enum Mode {
    Witness,
    Input,
    Constant,
}
impl Mode {
    fn ark(self) -> AllocationMode {
        match self {
            Mode::Witness => AllocationMode::Witness,
            Mode::Input => AllocationMode::Input,
            Mode::Constant => AllocationMode::Constant,
        }
    }
}

#[derive(Clone, Copy, Debug, Serialize, Deserialize, PartialEq, Eq, Hash)]
pub enum Via {
    Element,
    Affine,
    /// the field encoding: a lazily decoded variable
    Encoding,
}

#[derive(Clone, Copy, Debug, Serialize, Deserialize, PartialEq, Eq, Hash)]
pub enum BinForm {
    AddVV,
    AddVRef,
    AddAssignV,
    AddAssignRef,
    SubVV,
    SubVRef,
    SubAssignV,
    SubAssignRef,
}
pub const BIN_FORMS: &[BinForm] = &[BinForm::AddVV, BinForm::AddVRef, BinForm::AddAssignV, BinForm::AddAssignRef, BinForm::SubVV, BinForm::SubVRef, BinForm::SubAssignV, BinForm::SubAssignRef];

#[derive(Clone, Copy, Debug, Serialize, Deserialize, PartialEq, Eq, Hash)]
pub enum ConstForm {
    AddConst,
    AddAssignConst,
    SubConst,
    SubAssignConst,
}
pub const CONST_FORMS: &[ConstForm] = &[ConstForm::AddConst, ConstForm::AddAssignConst, ConstForm::SubConst, ConstForm::SubAssignConst];

#[derive(Clone, Debug, Serialize, Deserialize, PartialEq, Eq, Hash)]
pub enum GOp {
    AllocElem { dst: u8, src: Recipe, mode: Mode, via: Via },
    AllocFq { dst: u8, val: Num, mode: Mode },
    /// allocate a *new* variable holding the native value of register `a`: the same element,
    /// possibly as the other coset representative (witness / input allocation returns the decoded
    /// point, a constant keeps the point it was given)
    Realloc { dst: u8, a: u8, mode: Mode, via: Via },
    /// a lazily decoded variable from an arbitrary field value (AllocVar<Fq>): nothing is
    /// constrained until it is used. If the value is not a valid encoding the register is
    /// *poisoned*: the first gadget that consumes it must leave the system unsatisfied
    AllocLazy { dst: u8, val: Num, mode: Mode },
    /// CurveVar::is_zero
    IsZero { a: u8 },
    Compress { dst: u8, e: u8 },
    Decompress { dst: u8, f: u8 },
    Elligator { dst: u8, f: u8 },
    Bin { dst: u8, form: BinForm, a: u8, b: u8 },
    BinConst { dst: u8, form: ConstForm, a: u8, c: Recipe },
    Negate { dst: u8, a: u8 },
    Double { dst: u8, a: u8 },
    DoubleInPlace { dst: u8, a: u8 },
    ScalarMul { dst: u8, a: u8, k: Num, nbits: u16, bits_const: bool },
    IsEq { a: u8, b: u8 },
    IsNeq { a: u8, b: u8 },
    EnforceEqual { a: u8, b: u8 },
    EnforceNotEqual { a: u8, b: u8 },
    CondEnforceEqual { a: u8, b: u8, cond: bool },
    CondEnforceNotEqual { a: u8, b: u8, cond: bool },
    CondSelect { dst: u8, cond: bool, a: u8, b: u8 },
    /// the same gadgets with a *constant* condition (`Boolean::constant`): part of the circuit's
    /// definition, so never varied between the runs of a shape comparison
    CondSelectConst { dst: u8, cond: bool, a: u8, b: u8 },
    CondEnforceEqualConst { a: u8, b: u8, cond: bool },
    CondEnforceNotEqualConst { a: u8, b: u8, cond: bool },
    Isqrt { dst: u8, f: u8 },
    IsNegative { f: u8 },
    IsNonnegative { f: u8 },
    Abs { dst: u8, f: u8 },
    ToBits { a: u8 },
    ToBytes { a: u8 },
    /// read `R1CSVar::value()` of an element variable outside any allocation closure (as a
    /// circuit may do); the result is only compared in honest runs, but the call itself is made
    /// in every mode, setup included (where it returns AssignmentMissing)
    ReadValue { a: u8 },
    /// CondSelectGadget::conditionally_select_power_of_two_vector over a table of 2^bits registers
    /// (registers repeat cyclically), index bits big-endian as the trait documents; bits are witnesses
    /// or constants
    SelectVector { dst: u8, bits: u8, index: u8, regs: Vec<u8>, bits_const: bool },
    /// CurveVar::precomputed_base_scalar_mul_le on register a: the receiver becomes sum of bit_i * (2^i * base), the bases being
    /// native constants (fixed-base multiplication); nbits bits of k, witness or constant
    FixedBaseMul { dst: u8, a: u8, base: Recipe, k: Num, nbits: u16, bits_const: bool },
    /// witness allocation of *offered coordinates* (through the guarded unchecked constructor): `shift`
    /// adds the 4-torsion point (i, 0) to the recipe's point, which leaves the curve's group of valid
    /// elements; natively such a value does not exist, so the system must be unsatisfiable
    AllocRaw { dst: u8, src: Recipe, shift: bool, via_affine: bool },
}

impl GOp {
    pub fn name(&self) -> String {
        match self {
            GOp::AllocElem { mode, via, .. } => format!("AllocElem:{mode:?}:{via:?}"),
            GOp::AllocFq { mode, .. } => format!("AllocFq:{mode:?}"),
            GOp::Realloc { mode, .. } => format!("Realloc:{mode:?}"),
            GOp::AllocLazy { mode, .. } => format!("AllocLazy:{mode:?}"),
            GOp::Bin { form, .. } => format!("Bin:{form:?}"),
            GOp::BinConst { form, .. } => format!("BinConst:{form:?}"),
            GOp::ScalarMul { bits_const, .. } => format!("ScalarMul:{}", if *bits_const { "const-bits" } else { "witness-bits" }),
            other => {
                let s = format!("{other:?}");
                s.split(|c: char| !c.is_alphanumeric()).next().unwrap_or("?").to_string()
            }
        }
    }
    /// decode / encode / Elligator gadget on a (non-constant) variable
    pub fn is_codec(&self) -> bool {
        matches!(self, GOp::Compress { .. } | GOp::Decompress { .. } | GOp::Elligator { .. } | GOp::AllocElem { mode: Mode::Witness | Mode::Input, .. } | GOp::Realloc { mode: Mode::Witness | Mode::Input, .. })
    }
}

pub struct EReg {
    /// shared, not cloned, by the instructions that read the register: an `ElementVar` caches its
    /// lazily computed encoding / element behind interior mutability, and real circuits call several
    /// gadgets on the *same* variable
    pub var: std::rc::Rc<ElementVar>,
    pub native: AE,
    pub is_const: bool,
    /// allocated from a field value that is *not* a valid encoding (native decoding fails):
    /// `native` is a placeholder; consuming the variable must make the system unsatisfiable
    pub poisoned: bool,
}
pub struct FReg {
    pub var: FqVar,
    pub native: Fq,
    pub is_const: bool,
    /// the gadget may return either square root (isqrt output): compared up to sign
    pub sign_free: bool,
}

/// A value the prover is free to choose: everything the interpreter itself allocates in witness or
/// input mode (elements, field values, the bits of a scalar, selector booleans).
pub enum InKind {
    Elem(ElementVar, AE),
    Fq(FqVar, Fq),
    Bool(Boolean<Fq>, bool),
    /// not an input but a free choice all the same: the square root returned by isqrt is determined
    /// up to sign only, and everything computed from it afterwards legitimately depends on the choice
    SignFree(FqVar, Fq),
}

/// One materialised observable: fresh witness variables constrained equal to a variable's value, so
/// that the value an *assignment* gives it can be read off by column (witness index).
#[derive(Clone, Debug)]
pub enum MatItem {
    Elem { what: String, x: usize, y: usize, native: AE },
    Fq { what: String, w: usize, native: Fq, sign_free: bool },
    Bool { what: String, w: usize, native: bool },
    /// the coordinate bits a to_bits_le / to_bytes gadget emitted (x then y, `per` bits each, little
    /// endian): they must be canonical (below q) and denote the element
    Coords { what: String, bits: Vec<Result<usize, bool>>, per: usize, native: AE },
}

pub struct Mat {
    pub inputs: Vec<MatItem>,
    pub outputs: Vec<MatItem>,
    /// witness index of the first materialised variable
    pub first_wit: usize,
}

#[derive(Clone, Copy, PartialEq, Eq, Debug)]
pub enum Run {
    /// C13: after every step compare values with native and require satisfaction
    Honest,
    /// C14: no per-step checks; the caller judges at the end
    Adversarial,
    /// C15: no value access at all
    Shape,
}

pub struct Machine {
    pub cs: ConstraintSystemRef<Fq>,
    pub ev: Vec<Option<EReg>>,
    pub fv: Vec<Option<FReg>>,
    pub run: Run,
    /// a step whose native counterpart fails has been synthesised: the system must be unsatisfied
    pub expect_unsat: Option<String>,
    /// booleans produced by gadgets together with their native values
    pub bools: Vec<(String, Boolean<Fq>, bool)>,
    pub steps_done: usize,
    /// set while a step consumes a poisoned register: value comparisons are meaningless then
    suppress: std::cell::Cell<bool>,
    /// everything allocated as a free witness / public input by the interpreter itself
    pub inputs: Vec<InKind>,
    /// a lazily allocated (possibly undecodable) operand exists: its free value is not tracked
    pub has_lazy: bool,
    /// bit / byte outputs of to_bits_le / to_bytes: (what, bits, bits per coordinate, native element)
    pub coord_outputs: Vec<(String, Vec<Boolean<Fq>>, usize, AE)>,
}

pub enum StepOut {
    Done,
    Skipped,
    /// native operation fails: synthesised, program stops here
    NativeFails(String),
}

pub fn new_cs(setup: bool) -> ConstraintSystemRef<Fq> {
    let cs = ConstraintSystem::<Fq>::new_ref();
    cs.set_optimization_goal(OptimizationGoal::Constraints);
    cs.set_mode(if setup { SynthesisMode::Setup } else { SynthesisMode::Prove { construct_matrices: true } });
    cs
}

fn synth(e: SynthesisError, what: &str) -> Failure {
    Failure { signature: format!("R1CS|{what}|synthesis-error"), message: format!("{what}: synthesis error {e:?}") }
}

pub fn native_of(r: &Recipe) -> AE {
    let m = r.model();
    r.lib::<Ark>(&m)
}

fn fq_of(n: &N) -> Fq {
    arkf::fq(&(n % &Q.m))
}

pub fn elem_eq_exact(got: &AE, want: &AE) -> Result<(), String> {
    // same element, same encoding, and well-formed coordinates on the curve
    if got != want {
        return Err("element differs from the native result".into());
    }
    if got.vartime_compress().0 != want.vartime_compress().0 {
        return Err(format!("encoding {} differs from the native {}", hex::encode(got.vartime_compress().0), hex::encode(want.vartime_compress().0)));
    }
    let p = crate::api::Coords::of::<Ark>(want).affine()?;
    crate::recipe::judge_fast::<Ark>(got, &p).map(|_| ())
}

impl Machine {
    pub fn new(run: Run, setup: bool) -> Machine {
        Machine { cs: new_cs(setup), ev: (0..NE).map(|_| None).collect(), fv: (0..NF).map(|_| None).collect(), run, expect_unsat: None, bools: Vec::new(), steps_done: 0, suppress: std::cell::Cell::new(false), inputs: Vec::new(), has_lazy: false, coord_outputs: Vec::new() }
    }

    /// operand selection: the (i mod #set)-th register that holds a value, so that programs
    /// rarely name an empty register
    fn e(&self, i: u8) -> Option<&EReg> {
        let set: Vec<&EReg> = self.ev.iter().filter_map(|r| r.as_ref()).collect();
        if set.is_empty() {
            None
        } else {
            Some(set[i as usize % set.len()])
        }
    }
    fn f(&self, i: u8) -> Option<&FReg> {
        let set: Vec<&FReg> = self.fv.iter().filter_map(|r| r.as_ref()).collect();
        if set.is_empty() {
            None
        } else {
            Some(set[i as usize % set.len()])
        }
    }

    fn check_elem(&self, what: &str, var: &ElementVar, native: &AE, ctx: &mut Ctx) -> Result<(), Failure> {
        if self.run != Run::Honest || self.suppress.get() {
            return Ok(());
        }
        ctx.sub_eval();
        let v = catch_unwind(AssertUnwindSafe(|| var.value()));
        match v {
            Ok(Ok(got)) => {
                if let Err(why) = elem_eq_exact(&got, native) {
                    ctx.report(format!("C13|{what}|value"), format!("{what}: gadget output: {why}"))?;
                }
            }
            Ok(Err(e)) => ctx.report(format!("C13|{what}|value-error"), format!("{what}: value() failed: {e:?}"))?,
            Err(_) => ctx.report(format!("C13|{what}|value-panic"), format!("{what}: value() panicked (coordinates not on the curve)"))?,
        }
        Ok(())
    }
    fn check_fq(&self, what: &str, var: &FqVar, native: &Fq, ctx: &mut Ctx) -> Result<(), Failure> {
        if self.run != Run::Honest || self.suppress.get() {
            return Ok(());
        }
        ctx.sub_eval();
        match var.value() {
            Ok(got) if got == *native => Ok(()),
            Ok(got) => ctx.report(format!("C13|{what}|value"), format!("{what}: gadget output {} but native output {}", hex::encode(got.to_bytes()), hex::encode(native.to_bytes()))),
            Err(e) => ctx.report(format!("C13|{what}|value-error"), format!("{what}: value() failed: {e:?}")),
        }
    }
    fn check_bool(&mut self, what: &str, var: Boolean<Fq>, native: bool, ctx: &mut Ctx) -> Result<(), Failure> {
        if self.suppress.get() {
            return Ok(());
        }
        self.bools.push((what.to_string(), var.clone(), native));
        if self.run != Run::Honest {
            return Ok(());
        }
        ctx.sub_eval();
        match var.value() {
            Ok(got) if got == native => Ok(()),
            Ok(got) => ctx.report(format!("C13|{what}|value"), format!("{what}: gadget says {got}, native says {native}")),
            Err(e) => ctx.report(format!("C13|{what}|value-error"), format!("{what}: value() failed: {e:?}")),
        }
    }

    /// run one instruction; `Err` only for reported violations / synthesis errors
    pub fn step(&mut self, op: &GOp, ctx: &mut Ctx) -> Result<StepOut, Failure> {
        let name = op.name();
        let cs = self.cs.clone();
        self.suppress.set(false);
        // gadgets that legitimately do not force the decoding of a lazy operand
        if let GOp::Compress { e, .. } | GOp::Realloc { a: e, .. } = op {
            if self.run != Run::Shape && self.e(*e).map(|r| r.poisoned).unwrap_or(false) {
                return Ok(StepOut::Skipped);
            }
        }
        // scalar multiplication over zero bits never touches its base
        if let GOp::ScalarMul { a, nbits: 0, .. } = op {
            if self.run != Run::Shape && self.e(*a).map(|r| r.poisoned).unwrap_or(false) {
                return Ok(StepOut::Skipped);
            }
        }
        let mut poison_used = false;
        macro_rules! ereg {
            ($i:expr) => {
                match self.e($i) {
                    Some(r) => {
                        if r.poisoned {
                            poison_used = true;
                            self.suppress.set(true);
                        }
                        (r.var.clone(), r.native, r.is_const)
                    }
                    None => return Ok(StepOut::Skipped),
                }
            };
        }
        macro_rules! freg {
            ($i:expr) => {
                match self.f($i) {
                    Some(r) => (r.var.clone(), r.native, r.is_const),
                    None => return Ok(StepOut::Skipped),
                }
            };
        }
        let mut native_fails: Option<String> = None;
        match op {
            GOp::AllocElem { dst, src, mode, via } => {
                let native = native_of(src);
                let var = match via {
                    Via::Element => <ElementVar as AllocVar<AE, Fq>>::new_variable(cs.clone(), || Ok(native), mode.ark()),
                    Via::Affine => <ElementVar as AllocVar<AA, Fq>>::new_variable(cs.clone(), || Ok(native.into_affine()), mode.ark()),
                    Via::Encoding => {
                        if *mode == Mode::Constant {
                            return Ok(StepOut::Skipped);
                        }
                        <ElementVar as AllocVar<Fq, Fq>>::new_variable(cs.clone(), || Ok(native.vartime_compress_to_field()), mode.ark())
                    }
                }
                .map_err(|e| synth(e, &name))?;
                self.check_elem(&name, &var, &native, ctx)?;
                if *mode != Mode::Constant {
                    self.inputs.push(InKind::Elem(var.clone(), native));
                }
                self.ev[*dst as usize % NE] = Some(EReg { var: std::rc::Rc::new(var), native, is_const: *mode == Mode::Constant, poisoned: false });
            }
            GOp::Realloc { dst, a, mode, via } => {
                // a constant copied from a (witness-dependent) register value would make the circuit's
                // *definition* depend on the values: not a shape-preserving construction
                if self.run == Run::Shape && *mode == Mode::Constant {
                    return Ok(StepOut::Skipped);
                }
                let (_, native, _) = ereg!(*a);
                let var = match via {
                    Via::Element => <ElementVar as AllocVar<AE, Fq>>::new_variable(cs.clone(), || Ok(native), mode.ark()),
                    Via::Affine => <ElementVar as AllocVar<AA, Fq>>::new_variable(cs.clone(), || Ok(native.into_affine()), mode.ark()),
                    Via::Encoding => {
                        if *mode == Mode::Constant {
                            return Ok(StepOut::Skipped);
                        }
                        <ElementVar as AllocVar<Fq, Fq>>::new_variable(cs.clone(), || Ok(native.vartime_compress_to_field()), mode.ark())
                    }
                }
                .map_err(|e| synth(e, &name))?;
                self.check_elem(&name, &var, &native, ctx)?;
                if *mode != Mode::Constant {
                    self.inputs.push(InKind::Elem(var.clone(), native));
                }
                self.ev[*dst as usize % NE] = Some(EReg { var: std::rc::Rc::new(var), native, is_const: *mode == Mode::Constant, poisoned: false });
            }
            GOp::AllocLazy { dst, val, mode } => {
                if *mode == Mode::Constant {
                    return Ok(StepOut::Skipped);
                }
                let fv = fq_of(&val.0);
                let nat = ark::Encoding(fv.to_bytes()).vartime_decompress();
                let var = <ElementVar as AllocVar<Fq, Fq>>::new_variable(cs.clone(), || Ok(fv), mode.ark()).map_err(|e| synth(e, &name))?;
                self.has_lazy = true;
                match nat {
                    Ok(n) => self.ev[*dst as usize % NE] = Some(EReg { var: std::rc::Rc::new(var), native: n, is_const: false, poisoned: false }),
                    Err(_) => self.ev[*dst as usize % NE] = Some(EReg { var: std::rc::Rc::new(var), native: AE::IDENTITY, is_const: false, poisoned: true }),
                }
            }
            GOp::IsZero { a } => {
                let (va, na, _) = ereg!(*a);
                let out = va.is_zero().map_err(|e| synth(e, &name))?;
                self.check_bool(&name, out, na.is_identity(), ctx)?;
            }
            GOp::AllocFq { dst, val, mode } => {
                let native = fq_of(&val.0);
                let var = FqVar::new_variable(cs.clone(), || Ok(native), mode.ark()).map_err(|e| synth(e, &name))?;
                self.check_fq(&name, &var, &native, ctx)?;
                if *mode != Mode::Constant {
                    self.inputs.push(InKind::Fq(var.clone(), native));
                }
                self.fv[*dst as usize % NF] = Some(FReg { var, native, is_const: *mode == Mode::Constant, sign_free: false });
            }
            GOp::Compress { dst, e } => {
                let (var, native, is_const) = ereg!(*e);
                if is_const {
                    return Ok(StepOut::Skipped);
                }
                let out = match var.compress_to_field() {
                    Ok(o) => o,
                    // a variable that turned out to be a constant (e.g. scalar_mul_le over zero bits): documented MissingCS
                    Err(SynthesisError::MissingCS) if var.cs().is_none() => return Ok(StepOut::Skipped),
                    Err(e) => return Err(synth(e, &name)),
                };
                let nat = native.vartime_compress_to_field();
                self.check_fq(&name, &out, &nat, ctx)?;
                self.fv[*dst as usize % NF] = Some(FReg { var: out, native: nat, is_const: false, sign_free: false });
            }
            GOp::Decompress { dst, f } => {
                let (var, native, is_const) = freg!(*f);
                if is_const {
                    return Ok(StepOut::Skipped);
                }
                let nat = ark::Encoding(native.to_bytes()).vartime_decompress();
                let out = match ElementVar::decompress_from_field(var.clone()) {
                    Ok(o) => o,
                    Err(SynthesisError::MissingCS) if var.cs().is_none() => return Ok(StepOut::Skipped),
                    Err(e) => return Err(synth(e, &name)),
                };
                match nat {
                    Ok(n) => {
                        self.check_elem(&name, &out, &n, ctx)?;
                        self.ev[*dst as usize % NE] = Some(EReg { var: std::rc::Rc::new(out), native: n, is_const: false, poisoned: false });
                    }
                    Err(_) => {
                        // shape runs keep the register (with a placeholder native value) so that operand
                        // selection does not depend on the values
                        self.ev[*dst as usize % NE] = if self.run == Run::Shape { Some(EReg { var: std::rc::Rc::new(out), native: AE::IDENTITY, is_const: false, poisoned: false }) } else { None };
                        native_fails = Some(format!("native decoding rejects {}", hex::encode(native.to_bytes())));
                    }
                }
            }
            GOp::Elligator { dst, f } => {
                let (var, native, is_const) = freg!(*f);
                if is_const {
                    return Ok(StepOut::Skipped);
                }
                let out = match ElementVar::encode_to_curve(&var) {
                    Ok(o) => o,
                    Err(SynthesisError::MissingCS) if var.cs().is_none() => return Ok(StepOut::Skipped),
                    Err(e) => return Err(synth(e, &name)),
                };
                let nat = AE::encode_to_curve(&native);
                self.check_elem(&name, &out, &nat, ctx)?;
                self.ev[*dst as usize % NE] = Some(EReg { var: std::rc::Rc::new(out), native: nat, is_const: false, poisoned: false });
            }
            GOp::Bin { dst, form, a, b } => {
                let (va, na, ca) = ereg!(*a);
                let (vb, nb, cb) = ereg!(*b);
                // by-value operands are clones of the registers' variables (as a circuit would have to
                // write them); by-reference operands are the registers' own variables
                let va: ElementVar = (*va).clone();
                let (out, nat) = match form {
                    BinForm::AddVV => (va + (*vb).clone(), na + nb),
                    BinForm::AddVRef => (va + &*vb, na + nb),
                    BinForm::AddAssignV => {
                        let mut x = va;
                        x += (*vb).clone();
                        (x, na + nb)
                    }
                    BinForm::AddAssignRef => {
                        let mut x = va;
                        x += &*vb;
                        (x, na + nb)
                    }
                    BinForm::SubVV => (va - (*vb).clone(), na - nb),
                    BinForm::SubVRef => (va - &*vb, na - nb),
                    BinForm::SubAssignV => {
                        let mut x = va;
                        x -= (*vb).clone();
                        (x, na - nb)
                    }
                    BinForm::SubAssignRef => {
                        let mut x = va;
                        x -= &*vb;
                        (x, na - nb)
                    }
                };
                self.check_elem(&name, &out, &nat, ctx)?;
                let is_const = out.cs().is_none();
                let _ = (ca, cb);
                self.ev[*dst as usize % NE] = Some(EReg { var: std::rc::Rc::new(out), native: nat, is_const, poisoned: false });
            }
            GOp::BinConst { dst, form, a, c } => {
                let (va, na, ca) = ereg!(*a);
                let va: ElementVar = (*va).clone();
                let nc = native_of(c);
                let (out, nat) = match form {
                    ConstForm::AddConst => (va + nc, na + nc),
                    ConstForm::AddAssignConst => {
                        let mut x = va;
                        x += nc;
                        (x, na + nc)
                    }
                    ConstForm::SubConst => (va - nc, na - nc),
                    ConstForm::SubAssignConst => {
                        let mut x = va;
                        x -= nc;
                        (x, na - nc)
                    }
                };
                self.check_elem(&name, &out, &nat, ctx)?;
                let is_const = out.cs().is_none();
                let _ = ca;
                self.ev[*dst as usize % NE] = Some(EReg { var: std::rc::Rc::new(out), native: nat, is_const, poisoned: false });
            }
            GOp::Negate { dst, a } => {
                let (va, na, ca) = ereg!(*a);
                let out = va.negate().map_err(|e| synth(e, &name))?;
                let nat = -na;
                self.check_elem(&name, &out, &nat, ctx)?;
                let is_const = out.cs().is_none();
                let _ = ca;
                self.ev[*dst as usize % NE] = Some(EReg { var: std::rc::Rc::new(out), native: nat, is_const, poisoned: false });
            }
            GOp::Double { dst, a } => {
                let (va, na, ca) = ereg!(*a);
                let out = va.double().map_err(|e| synth(e, &name))?;
                let nat = na.double();
                self.check_elem(&name, &out, &nat, ctx)?;
                let is_const = out.cs().is_none();
                let _ = ca;
                self.ev[*dst as usize % NE] = Some(EReg { var: std::rc::Rc::new(out), native: nat, is_const, poisoned: false });
            }
            GOp::DoubleInPlace { dst, a } => {
                let (va, na, ca) = ereg!(*a);
                let mut va: ElementVar = (*va).clone();
                va.double_in_place().map_err(|e| synth(e, &name))?;
                let nat = na.double();
                self.check_elem(&name, &va, &nat, ctx)?;
                let is_const = va.cs().is_none();
                let _ = ca;
                self.ev[*dst as usize % NE] = Some(EReg { var: std::rc::Rc::new(va), native: nat, is_const, poisoned: false });
            }
            GOp::ScalarMul { dst, a, k, nbits, bits_const } => {
                let (va, na, ca) = ereg!(*a);
                let nb = (*nbits as usize).min(256);
                let kk = &k.0 % (N::from(1u32) << nb);
                let bits: Vec<bool> = (0..nb).map(|i| kk.bit(i as u64)).collect();
                let bvars: Vec<Boolean<Fq>> = if *bits_const {
                    bits.iter().map(|b| Boolean::constant(*b)).collect()
                } else {
                    let mut v = Vec::new();
                    for b in &bits {
                        v.push(Boolean::new_witness(cs.clone(), || Ok(*b)).map_err(|e| synth(e, &name))?);
                        self.inputs.push(InKind::Bool(v.last().unwrap().clone(), *b));
                    }
                    v
                };
                let out = va.scalar_mul_le(bvars.iter()).map_err(|e| synth(e, &name))?;
                let nat = na.mul_bigint(kk.to_u64_digits());
                self.check_elem(&name, &out, &nat, ctx)?;
                let is_const = out.cs().is_none();
                let _ = ca;
                self.ev[*dst as usize % NE] = Some(EReg { var: std::rc::Rc::new(out), native: nat, is_const, poisoned: false });
            }
            GOp::IsEq { a, b } | GOp::IsNeq { a, b } => {
                let (va, na, _) = ereg!(*a);
                let (vb, nb, _) = ereg!(*b);
                let eq = matches!(op, GOp::IsEq { .. });
                let out = if eq { va.is_eq(&vb) } else { va.is_neq(&vb) }.map_err(|e| synth(e, &name))?;
                self.check_bool(&name, out, (na == nb) == eq, ctx)?;
            }
            GOp::EnforceEqual { a, b } | GOp::EnforceNotEqual { a, b } => {
                let (va, na, ca) = ereg!(*a);
                let (vb, nb, cb) = ereg!(*b);
                if ca && cb {
                    return Ok(StepOut::Skipped);
                }
                let eq = matches!(op, GOp::EnforceEqual { .. });
                if eq { va.enforce_equal(&vb) } else { va.enforce_not_equal(&vb) }.map_err(|e| synth(e, &name))?;
                if (na == nb) != eq {
                    native_fails = Some(format!("{name} on natively {} elements", if na == nb { "equal" } else { "different" }));
                }
            }
            GOp::CondEnforceEqual { a, b, cond } | GOp::CondEnforceNotEqual { a, b, cond } | GOp::CondEnforceEqualConst { a, b, cond } | GOp::CondEnforceNotEqualConst { a, b, cond } => {
                let (va, na, ca) = ereg!(*a);
                let (vb, nb, cb) = ereg!(*b);
                if ca && cb {
                    return Ok(StepOut::Skipped);
                }
                let eq = matches!(op, GOp::CondEnforceEqual { .. } | GOp::CondEnforceEqualConst { .. });
                let c = if matches!(op, GOp::CondEnforceEqualConst { .. } | GOp::CondEnforceNotEqualConst { .. }) {
                    Boolean::constant(*cond)
                } else {
                    let c = Boolean::new_witness(cs.clone(), || Ok(*cond)).map_err(|e| synth(e, &name))?;
                    self.inputs.push(InKind::Bool(c.clone(), *cond));
                    c
                };
                if eq { va.conditional_enforce_equal(&vb, &c) } else { va.conditional_enforce_not_equal(&vb, &c) }.map_err(|e| synth(e, &name))?;
                if *cond && (na == nb) != eq {
                    native_fails = Some(format!("{name} (condition true) on natively {} elements", if na == nb { "equal" } else { "different" }));
                }
            }
            GOp::CondSelect { dst, cond, a, b } | GOp::CondSelectConst { dst, cond, a, b } => {
                let (va, na, ca) = ereg!(*a);
                let (vb, nb, cb) = ereg!(*b);
                let c = if matches!(op, GOp::CondSelectConst { .. }) {
                    Boolean::constant(*cond)
                } else {
                    let c = Boolean::new_witness(cs.clone(), || Ok(*cond)).map_err(|e| synth(e, &name))?;
                    self.inputs.push(InKind::Bool(c.clone(), *cond));
                    c
                };
                let out = ElementVar::conditionally_select(&c, &va, &vb).map_err(|e| synth(e, &name))?;
                let nat = if *cond { na } else { nb };
                self.check_elem(&name, &out, &nat, ctx)?;
                let is_const = out.cs().is_none();
                let _ = (ca, cb);
                self.ev[*dst as usize % NE] = Some(EReg { var: std::rc::Rc::new(out), native: nat, is_const, poisoned: false });
            }
            GOp::Isqrt { dst, f } => {
                let (var, native, is_const) = freg!(*f);
                if is_const {
                    return Ok(StepOut::Skipped);
                }
                let (flag, y) = match var.isqrt() {
                    Ok(o) => o,
                    Err(SynthesisError::MissingCS) if var.cs().is_none() => return Ok(StepOut::Skipped),
                    Err(e) => return Err(synth(e, &name)),
                };
                let (nflag, ny) = Fq::sqrt_ratio_zeta(&Fq::ONE, &native);
                self.check_bool("Isqrt.flag", flag, nflag, ctx)?;
                if self.run == Run::Honest {
                    ctx.sub_eval();
                    match y.value() {
                        Ok(got) if got == ny || got == -ny => {}
                        Ok(got) => ctx.report("C13|Isqrt|value", format!("isqrt({}): y = {} but native y = +-{}", hex::encode(native.to_bytes()), hex::encode(got.to_bytes()), hex::encode(ny.to_bytes())))?,
                        Err(e) => ctx.report("C13|Isqrt|value-error", format!("value() failed: {e:?}"))?,
                    }
                }
                // the register keeps the gadget's own sign choice
                let kept = y.value().unwrap_or(ny);
                let kept_native = if kept == -ny { -ny } else { ny };
                self.inputs.push(InKind::SignFree(y.clone(), kept_native));
                self.fv[*dst as usize % NF] = Some(FReg { var: y, native: kept_native, is_const: false, sign_free: true });
            }
            GOp::IsNegative { f } | GOp::IsNonnegative { f } => {
                let (var, native, _) = freg!(*f);
                let neg = matches!(op, GOp::IsNegative { .. });
                let out = if neg { var.is_negative() } else { var.is_nonnegative() }.map_err(|e| synth(e, &name))?;
                let nat_neg = native.to_bytes()[0] & 1 == 1;
                self.check_bool(&name, out, nat_neg == neg, ctx)?;
            }
            GOp::Abs { dst, f } => {
                let (var, native, is_const) = freg!(*f);
                let out = var.abs().map_err(|e| synth(e, &name))?;
                let nat = if native.to_bytes()[0] & 1 == 1 { -native } else { native };
                self.check_fq(&name, &out, &nat, ctx)?;
                let is_const2 = matches!(out, FqVar::Constant(_));
                let _ = is_const;
                self.fv[*dst as usize % NF] = Some(FReg { var: out, native: nat, is_const: is_const2, sign_free: false });
            }
            GOp::ToBits { a } => {
                let (va, na, _) = ereg!(*a);
                let bits = va.to_bits_le().map_err(|e| synth(e, &name))?;
                if bits.len() == 506 && !self.suppress.get() {
                    self.coord_outputs.push(("to_bits_le".into(), bits.clone(), 253, na));
                }
                if self.run == Run::Honest && !self.suppress.get() {
                    ctx.sub_eval();
                    // what the library emits is the little-endian bits of the affine coordinates x then y (253
                    // bits each). No native counterpart exists; the check is that they denote the element.
                    let vals: Result<Vec<bool>, _> = bits.iter().map(|b| b.value()).collect();
                    match vals {
                        Ok(v) if v.len() == 506 => {
                            let int = |bs: &[bool]| -> N { let mut n = N::from(0u32); for (i, b) in bs.iter().enumerate() { if *b { n.set_bit(i as u64, true); } } n };
                            let p = crate::refmodel::Pt { x: int(&v[..253]), y: int(&v[253..]) };
                            let want = crate::api::Coords::of::<Ark>(&na).affine().map_err(|e| Failure { signature: "harness|coords".into(), message: e })?;
                            if p.x >= Q.m || p.y >= Q.m || !crate::refmodel::CURVE.same_element(&want, &p) {
                                ctx.report("C13|ToBits|value", format!("to_bits_le decodes to ({:x}, {:x}), which is not a representative of the element", p.x, p.y))?;
                            }
                        }
                        Ok(v) => ctx.class(&format!("ToBits:unexpected-length-{}", v.len())),
                        Err(e) => ctx.report("C13|ToBits|value-error", format!("value() failed: {e:?}"))?,
                    }
                }
            }
            GOp::ToBytes { a } => {
                let (va, na, _) = ereg!(*a);
                let bytes = va.to_bytes().map_err(|e| synth(e, &name))?;
                if bytes.len() == 64 && !self.suppress.get() {
                    let mut all = Vec::with_capacity(512);
                    let mut ok = true;
                    for b in &bytes {
                        match b.to_bits_le() {
                            Ok(bs) => all.extend(bs),
                            Err(_) => ok = false,
                        }
                    }
                    if ok {
                        self.coord_outputs.push(("to_bytes".into(), all, 256, na));
                    }
                }
                if self.run == Run::Honest && !self.suppress.get() {
                    ctx.sub_eval();
                    let got: Result<Vec<u8>, _> = bytes.iter().map(|b| b.value()).collect();
                    match got {
                        Ok(g) if g.len() == 64 => {
                            let p = crate::refmodel::Pt { x: N::from_bytes_le(&g[..32]), y: N::from_bytes_le(&g[32..]) };
                            let want = crate::api::Coords::of::<Ark>(&na).affine().map_err(|e| Failure { signature: "harness|coords".into(), message: e })?;
                            if p.x >= Q.m || p.y >= Q.m || !crate::refmodel::CURVE.same_element(&want, &p) {
                                ctx.report("C13|ToBytes|value", format!("to_bytes decodes to ({:x}, {:x}), which is not a representative of the element", p.x, p.y))?;
                            }
                        }
                        Ok(g) => ctx.class(&format!("ToBytes:unexpected-length-{}", g.len())),
                        Err(e) => ctx.report("C13|ToBytes|value-error", format!("value() failed: {e:?}"))?,
                    }
                }
            }
            GOp::SelectVector { dst, bits, index, regs, bits_const } => {
                let nbits = (*bits % 4) as usize; // tables of 1, 2, 4, 8 entries
                let n = 1usize << nbits;
                if regs.is_empty() {
                    return Ok(StepOut::Skipped);
                }
                let mut vars: Vec<ElementVar> = Vec::with_capacity(n);
                let mut nats: Vec<AE> = Vec::with_capacity(n);
                for i in 0..n {
                    let (v, na, _) = ereg!(regs[i % regs.len()]);
                    vars.push((*v).clone());
                    nats.push(na);
                }
                let idx = (*index as usize) % n;
                // position is big-endian: position[0] is the most significant bit of the index
                let mut pos: Vec<Boolean<Fq>> = Vec::with_capacity(nbits);
                for k in 0..nbits {
                    let bit = (idx >> (nbits - 1 - k)) & 1 == 1;
                    if *bits_const {
                        pos.push(Boolean::constant(bit));
                    } else {
                        let b = Boolean::new_witness(cs.clone(), || Ok(bit)).map_err(|e| synth(e, &name))?;
                        self.inputs.push(InKind::Bool(b.clone(), bit));
                        pos.push(b);
                    }
                }
                let out = ElementVar::conditionally_select_power_of_two_vector(&pos, &vars).map_err(|e| synth(e, &name))?;
                let nat = nats[idx];
                self.check_elem(&name, &out, &nat, ctx)?;
                let is_const = out.cs().is_none();
                self.ev[*dst as usize % NE] = Some(EReg { var: std::rc::Rc::new(out), native: nat, is_const, poisoned: false });
            }
            GOp::FixedBaseMul { dst, a, base, k, nbits, bits_const } => {
                // the receiver's value plays no role (it is overwritten): start from the zero variable, so that no
                // register is consumed
                let _ = a;
                let nb = (*nbits as usize).min(256);
                let kk = &k.0 % (N::from(1u32) << nb);
                let b0 = native_of(base);
                let mut bases: Vec<AE> = Vec::with_capacity(nb);
                let mut cur = b0;
                for _ in 0..nb {
                    bases.push(cur);
                    cur = cur.double();
                }
                let mut bvars: Vec<Boolean<Fq>> = Vec::with_capacity(nb);
                for i in 0..nb {
                    let bit = kk.bit(i as u64);
                    if *bits_const {
                        bvars.push(Boolean::constant(bit));
                    } else {
                        let b = Boolean::new_witness(cs.clone(), || Ok(bit)).map_err(|e| synth(e, &name))?;
                        self.inputs.push(InKind::Bool(b.clone(), bit));
                        bvars.push(b);
                    }
                }
                let mut acc: ElementVar = <ElementVar as ark_r1cs_std::groups::CurveVar<AE, Fq>>::zero();
                acc.precomputed_base_scalar_mul_le(bvars.iter().zip(bases.iter())).map_err(|e| synth(e, &name))?;
                // the method *replaces* the receiver by the sum of the selected bases (ark-r1cs-std's default)
                let nat = b0.mul_bigint(kk.to_u64_digits());
                self.check_elem(&name, &acc, &nat, ctx)?;
                let is_const = acc.cs().is_none();
                self.ev[*dst as usize % NE] = Some(EReg { var: std::rc::Rc::new(acc), native: nat, is_const, poisoned: false });
            }
            GOp::AllocRaw { dst, src, shift, via_affine } => {
                let m = src.model();
                let c = &*crate::refmodel::CURVE;
                let p = if *shift {
                    let i = Q.sqrt(&Q.neg(&N::from(1u32))).expect("-1 is a square");
                    c.add(&m.pt, &crate::refmodel::Pt { x: i, y: N::from(0u32) })
                } else {
                    m.pt.clone()
                };
                let raw = AE::verif_from_affine_unchecked(fq_of(&p.x), fq_of(&p.y));
                let var = if *via_affine {
                    <ElementVar as AllocVar<AA, Fq>>::new_variable(cs.clone(), || Ok(raw.into_affine()), Mode::Witness.ark())
                } else {
                    <ElementVar as AllocVar<AE, Fq>>::new_variable(cs.clone(), || Ok(raw), Mode::Witness.ark())
                };
                let var = match catch_unwind(AssertUnwindSafe(|| var)) {
                    Ok(v) => v.map_err(|e| synth(e, &name))?,
                    Err(_) => return Err(synth(SynthesisError::AssignmentMissing, &name)),
                };
                if *shift {
                    native_fails = Some("the offered coordinates are a curve point outside the group of valid elements".into());
                    self.ev[*dst as usize % NE] = Some(EReg { var: std::rc::Rc::new(var), native: AE::IDENTITY, is_const: false, poisoned: true });
                } else {
                    let native = native_of(src);
                    self.check_elem(&name, &var, &native, ctx)?;
                    self.inputs.push(InKind::Elem(var.clone(), native));
                    self.ev[*dst as usize % NE] = Some(EReg { var: std::rc::Rc::new(var), native, is_const: false, poisoned: false });
                }
            }
            GOp::ReadValue { a } => {
                // on the register's own variable (not a clone), so that lazy state changes persist
                let idx = {
                    let set: Vec<usize> = self.ev.iter().enumerate().filter(|(_, r)| r.is_some()).map(|(i, _)| i).collect();
                    if set.is_empty() {
                        return Ok(StepOut::Skipped);
                    }
                    set[*a as usize % set.len()]
                };
                let r = self.ev[idx].as_ref().unwrap();
                if r.poisoned {
                    poison_used = true;
                    self.suppress.set(true);
                }
                let v = catch_unwind(AssertUnwindSafe(|| r.var.value()));
                if self.run == Run::Honest && poison_used {
                    // the variable was allocated from a field value that is not an encoding: value() may
                    // refuse (error or on-curve assertion), but must never hand out a native Element that
                    // is not a valid group element
                    if let Ok(Ok(got)) = &v {
                        ctx.sub_eval();
                        let ok = crate::api::Coords::of::<Ark>(got).affine().map(|p| crate::refmodel::CURVE.valid(&p)).unwrap_or(false);
                        if !ok {
                            ctx.report("C13|ReadValue|invalid-element-handed-out", "value() of a variable allocated from an invalid encoding returned Ok(element) whose coordinates are not a valid group element".to_string())?;
                        }
                    }
                }
                if self.run == Run::Honest && !poison_used {
                    match v {
                        Ok(Ok(got)) => {
                            if let Err(why) = elem_eq_exact(&got, &r.native) {
                                ctx.report("C13|ReadValue|value", format!("value(): {why}"))?;
                            }
                        }
                        Ok(Err(e)) => ctx.report("C13|ReadValue|value-error", format!("value() failed: {e:?}"))?,
                        Err(_) => ctx.report("C13|ReadValue|value-panic", "value() panicked".to_string())?,
                    }
                }
            }
        }
        self.steps_done += 1;
        if poison_used {
            // whatever the gadget produced is derived from an undecodable encoding
            if let GOp::Bin { dst, .. } | GOp::BinConst { dst, .. } | GOp::Negate { dst, .. } | GOp::Double { dst, .. } | GOp::DoubleInPlace { dst, .. } | GOp::ScalarMul { dst, .. } | GOp::CondSelect { dst, .. } | GOp::CondSelectConst { dst, .. } | GOp::SelectVector { dst, .. } | GOp::FixedBaseMul { dst, .. } = op {
                if let Some(r) = self.ev[*dst as usize % NE].as_mut() {
                    r.poisoned = true;
                }
            }
            if native_fails.is_none() {
                native_fails = Some("the gadget consumes a lazily allocated variable whose field value is not a valid encoding (native decoding fails)".to_string());
            }
        }
        self.suppress.set(false);
        if let Some(why) = native_fails {
            self.expect_unsat = Some(why.clone());
            return Ok(StepOut::NativeFails(why));
        }
        Ok(StepOut::Done)
    }

    /// the step that just returned (possibly with an error) was consuming a poisoned register:
    /// the honest prover has no witness there, a synthesis error is a rejection, not a defect
    pub fn consuming_poison(&self) -> bool {
        self.suppress.get()
    }

    pub fn satisfied(&self) -> bool {
        self.cs.is_satisfied().unwrap_or(false)
    }

    /// Pin every free input and every observable output (live registers, gadget booleans) to fresh
    /// witness variables (`w = value; enforce w == var`), so that their values under *any* assignment
    /// of the finished system can be read by column. Returns None when an observable has no value
    /// (constants are skipped; poisoned registers have no native counterpart).
    pub fn materialize(&self) -> Option<Mat> {
        let cs = self.cs.clone();
        let first_wit = cs.num_witness_variables();
        let mat_fq = |var: &FqVar| -> Option<Option<usize>> {
            if matches!(var, FqVar::Constant(_)) {
                return Some(None);
            }
            let idx = cs.num_witness_variables();
            let w = FqVar::new_witness(cs.clone(), || var.value()).ok()?;
            w.enforce_equal(var).ok()?;
            Some(Some(idx))
        };
        let mat_elem = |what: String, var: &ElementVar, native: &AE| -> Option<Option<MatItem>> {
            if var.cs().is_none() {
                return Some(None);
            }
            let (x, y) = var.verif_xy().ok()?;
            match (mat_fq(&x)?, mat_fq(&y)?) {
                (Some(x), Some(y)) => Some(Some(MatItem::Elem { what, x, y, native: *native })),
                _ => Some(None),
            }
        };
        let mat_bool = |what: String, b: &Boolean<Fq>, native: bool| -> Option<Option<MatItem>> {
            if matches!(b, Boolean::Constant(_)) {
                return Some(None);
            }
            let f: FqVar = FqVar::from(b.clone());
            Some(mat_fq(&f)?.map(|w| MatItem::Bool { what, w, native }))
        };
        let mut inputs = Vec::new();
        for (i, inp) in self.inputs.iter().enumerate() {
            let item = match inp {
                InKind::Elem(v, n) => mat_elem(format!("input element #{i}"), v, n)?,
                InKind::Fq(v, n) => mat_fq(v)?.map(|w| MatItem::Fq { what: format!("input field value #{i}"), w, native: *n, sign_free: false }),
                InKind::Bool(b, n) => mat_bool(format!("input boolean #{i}"), b, *n)?,
                InKind::SignFree(v, n) => mat_fq(v)?.map(|w| MatItem::Fq { what: format!("isqrt output #{i}"), w, native: *n, sign_free: true }),
            };
            inputs.extend(item);
        }
        let mut outputs = Vec::new();
        for (i, r) in self.ev.iter().enumerate() {
            if let Some(r) = r {
                if r.poisoned || r.is_const {
                    continue;
                }
                outputs.extend(mat_elem(format!("element register {i}"), &r.var, &r.native)?);
            }
        }
        for (i, r) in self.fv.iter().enumerate() {
            if let Some(r) = r {
                if r.is_const {
                    continue;
                }
                outputs.extend(mat_fq(&r.var)?.map(|w| MatItem::Fq { what: format!("field register {i}"), w, native: r.native, sign_free: r.sign_free }));
            }
        }
        for (what, b, native) in &self.bools {
            outputs.extend(mat_bool(format!("boolean output of {what}"), b, *native)?);
        }
        for (what, bits, per, native) in &self.coord_outputs {
            let mut cols = Vec::with_capacity(bits.len());
            let mut complete = true;
            for b in bits {
                // constant bits (the zero padding of a byte string) are part of the value, not witnesses
                if let Boolean::Constant(c) = b {
                    cols.push(Err(*c));
                    continue;
                }
                match mat_bool(String::new(), b, false)? {
                    Some(MatItem::Bool { w, .. }) => cols.push(Ok(w)),
                    _ => complete = false,
                }
            }
            if complete {
                outputs.push(MatItem::Coords { what: format!("coordinate bits emitted by {what}"), bits: cols, per: *per, native: *native });
            }
        }
        Some(Mat { inputs, outputs, first_wit })
    }
}

/// run a program with the honest prover; per-step value checks; `satisfied == native_ok`
pub fn run_honest(prog: &[GOp], ctx: &mut Ctx) -> Result<(), Failure> {
    let mut m = Machine::new(Run::Honest, false);
    for (i, op) in prog.iter().enumerate() {
        let name = op.name();
        let out = match m.step(op, ctx) {
            Ok(o) => o,
            Err(f) if f.signature.ends_with("synthesis-error") && m.consuming_poison() => {
                // witness generation failed on garbage decoded from an invalid encoding: rejected
                ctx.class(&format!("gadget:{name}"));
                ctx.class("native-fails=>unsat-expected");
                return Ok(());
            }
            Err(f) => return Err(f),
        };
        match out {
            StepOut::Skipped => {
                ctx.class(&format!("gadget-skipped:{name}"));
            }
            StepOut::Done => {
                ctx.class(&format!("gadget:{name}"));
                if !m.satisfied() {
                    ctx.report(format!("C13|{name}|unsatisfied-honest"), format!("step {i} ({name}): honest synthesis of a natively valid operation leaves the constraint system unsatisfied (completeness)"))?;
                    return Ok(());
                }
            }
            StepOut::NativeFails(why) => {
                ctx.class(&format!("gadget:{name}"));
                ctx.class("native-fails=>unsat-expected");
                if m.satisfied() {
                    ctx.report(format!("C13|{name}|satisfied-although-native-fails"), format!("step {i} ({name}): {why}, yet the constraint system is satisfied"))?;
                }
                return Ok(());
            }
        }
    }
    Ok(())
}

// ---------------------------------------------------------------------------------------
// generators
// ---------------------------------------------------------------------------------------

fn mode_nc() -> impl Strategy<Value = Mode> {
    prop_oneof![3 => Just(Mode::Witness), 2 => Just(Mode::Input)]
}
fn mode_any() -> impl Strategy<Value = Mode> {
    prop_oneof![3 => Just(Mode::Witness), 2 => Just(Mode::Input), 1 => Just(Mode::Constant)]
}
fn via() -> impl Strategy<Value = Via> {
    prop_oneof![3 => Just(Via::Element), 1 => Just(Via::Affine), 2 => Just(Via::Encoding)]
}

/// field values for decode / Elligator / isqrt inputs: valid encodings, every invalid class
pub fn fq_input() -> BoxedStrategy<Num> {
    use crate::props::common::{bytes32_near, pt_src};
    prop_oneof![
        6 => pt_src().prop_map(|s| Num(crate::refmodel::CURVE.encode_spec(&s.point()))),
        6 => bytes32_near().prop_map(|b| Num(b.int() % &Q.m)),
        4 => gen::fq_special(),
        1 => gen::r0_targeted(),
        1 => prop_oneof![Just(0u32), Just(1), Just(2), Just(8)].prop_map(|v| Num(N::from(v))),
        2 => Just(Num(&Q.m - 1u32)),
    ]
    .boxed()
}

pub fn gop() -> BoxedStrategy<GOp> {
    let e = || 0u8..NE as u8;
    let f = || 0u8..NF as u8;
    prop_oneof![
        4 => (e(), recipe::recipe_small(), mode_any(), via()).prop_map(|(dst, src, mode, via)| GOp::AllocElem { dst, src, mode, via }),
        3 => (f(), fq_input(), mode_any()).prop_map(|(dst, val, mode)| GOp::AllocFq { dst, val, mode }),
        3 => (e(), e(), mode_any(), via()).prop_map(|(dst, a, mode, via)| GOp::Realloc { dst, a, mode, via }),
        3 => (e(), fq_input(), mode_nc()).prop_map(|(dst, val, mode)| GOp::AllocLazy { dst, val, mode }),
        2 => e().prop_map(|a| GOp::IsZero { a }),
        3 => (f(), e()).prop_map(|(dst, e)| GOp::Compress { dst, e }),
        3 => (e(), f()).prop_map(|(dst, f)| GOp::Decompress { dst, f }),
        2 => (e(), f()).prop_map(|(dst, f)| GOp::Elligator { dst, f }),
        4 => (e(), any::<u16>(), e(), e()).prop_map(|(dst, i, a, b)| GOp::Bin { dst, form: BIN_FORMS[pick(i, BIN_FORMS.len())], a, b }),
        2 => (e(), any::<u16>(), e(), recipe::recipe_small()).prop_map(|(dst, i, a, c)| GOp::BinConst { dst, form: CONST_FORMS[pick(i, CONST_FORMS.len())], a, c }),
        1 => (e(), e()).prop_map(|(dst, a)| GOp::Negate { dst, a }),
        1 => (e(), e()).prop_map(|(dst, a)| GOp::Double { dst, a }),
        1 => (e(), e()).prop_map(|(dst, a)| GOp::DoubleInPlace { dst, a }),
        1 => (e(), e(), gen::scalar(), prop_oneof![4 => 0u16..16, 2 => 16u16..80, 1 => Just(253u16), 1 => Just(256u16)], any::<bool>()).prop_map(|(dst, a, k, nbits, bits_const)| GOp::ScalarMul { dst, a, k, nbits, bits_const }),
        1 => (e(), e()).prop_map(|(a, b)| GOp::IsEq { a, b }),
        1 => (e(), e()).prop_map(|(a, b)| GOp::IsNeq { a, b }),
        1 => (e(), e()).prop_map(|(a, b)| GOp::EnforceEqual { a, b }),
        1 => (e(), e()).prop_map(|(a, b)| GOp::EnforceNotEqual { a, b }),
        1 => (e(), e(), any::<bool>()).prop_map(|(a, b, cond)| GOp::CondEnforceEqual { a, b, cond }),
        1 => (e(), e(), any::<bool>()).prop_map(|(a, b, cond)| GOp::CondEnforceNotEqual { a, b, cond }),
        1 => (e(), any::<bool>(), e(), e()).prop_map(|(dst, cond, a, b)| GOp::CondSelect { dst, cond, a, b }),
        1 => (e(), any::<bool>(), e(), e(), 0u8..3).prop_map(|(dst, cond, a, b, w)| match w {
            0 => GOp::CondSelectConst { dst, cond, a, b },
            1 => GOp::CondEnforceEqualConst { a, b, cond },
            _ => GOp::CondEnforceNotEqualConst { a, b, cond },
        }),
        2 => (f(), f()).prop_map(|(dst, f)| GOp::Isqrt { dst, f }),
        1 => f().prop_map(|f| GOp::IsNegative { f }),
        1 => f().prop_map(|f| GOp::IsNonnegative { f }),
        1 => (f(), f()).prop_map(|(dst, f)| GOp::Abs { dst, f }),
        1 => e().prop_map(|a| GOp::ToBits { a }),
        1 => e().prop_map(|a| GOp::ToBytes { a }),
        2 => e().prop_map(|a| GOp::ReadValue { a }),
        1 => (e(), e(), recipe::recipe_small(), gen::scalar(), prop_oneof![4 => 0u16..12, 2 => 12u16..70, 1 => Just(250u16), 1 => Just(251u16), 1 => Just(256u16)], any::<bool>(), any::<bool>()).prop_map(|(dst, a, base, k, nbits, bits_const, top)| {
            // half of the time force the top bit of the bit string
            let k = if top && nbits > 0 { Num(&k.0 | (N::from(1u32) << (nbits as u64 - 1))) } else { k };
            GOp::FixedBaseMul { dst, a, base, k, nbits, bits_const }
        }),
        1 => (e(), recipe::recipe_small(), any::<bool>(), any::<bool>()).prop_map(|(dst, src, shift, via_affine)| GOp::AllocRaw { dst, src, shift, via_affine }),
        1 => (e(), 0u8..4, any::<u8>(), proptest::collection::vec(e(), 1..=8), any::<bool>()).prop_map(|(dst, bits, index, regs, bits_const)| GOp::SelectVector { dst, bits, index, regs, bits_const }),
    ]
    .boxed()
}

/// programs: a prologue that fills some registers, then random gadget applications
pub fn program(max_ops: usize) -> BoxedStrategy<Vec<GOp>> {
    let prologue = (
        (recipe::recipe_small(), mode_nc(), via()),
        (recipe::recipe_small(), mode_any(), via()),
        (fq_input(), mode_nc()),
        (fq_input(), mode_nc()),
    )
        .prop_map(|((r0, m0, v0), (r1, m1, v1), (x0, mx0), (x1, mx1))| {
            vec![
                GOp::AllocElem { dst: 0, src: r0, mode: m0, via: v0 },
                GOp::AllocElem { dst: 1, src: r1, mode: m1, via: v1 },
                GOp::AllocFq { dst: 0, val: x0, mode: mx0 },
                GOp::AllocFq { dst: 1, val: x1, mode: mx1 },
            ]
        });
    (prologue, proptest::collection::vec(gop(), 1..=max_ops))
        .prop_map(|(mut p, ops)| {
            p.extend(ops);
            p
        })
        .boxed()
}

/// structural reductions of a program (drop an instruction, shrink a recipe inside one)
pub fn shrink_program(prog: &[GOp]) -> Vec<Vec<GOp>> {
    let mut v = Vec::new();
    for i in 0..prog.len() {
        let mut p = prog.to_vec();
        p.remove(i);
        if !p.is_empty() {
            v.push(p);
        }
    }
    for (i, op) in prog.iter().enumerate() {
        let subs: Vec<GOp> = match op {
            GOp::AllocElem { dst, src, mode, via } => src.shrinks().into_iter().map(|s| GOp::AllocElem { dst: *dst, src: s, mode: *mode, via: *via }).collect(),
            GOp::BinConst { dst, form, a, c } => c.shrinks().into_iter().map(|s| GOp::BinConst { dst: *dst, form: *form, a: *a, c: s }).collect(),
            GOp::ScalarMul { dst, a, k, nbits, bits_const } if *nbits > 2 => vec![GOp::ScalarMul { dst: *dst, a: *a, k: k.clone(), nbits: nbits / 2, bits_const: *bits_const }],
            _ => vec![],
        };
        for s in subs {
            let mut p = prog.to_vec();
            p[i] = s;
            v.push(p);
        }
    }
    v
}
